// xmc: bounded exhaustive explorer for xjslang/xjs properties C01..C16.
package main

import (
	"encoding/json"
	"fmt"
	"os"
	"sort"
	"strconv"
	"time"

	"xmc/core"
	_ "xmc/props"
)

func usage() {
	fmt.Fprintln(os.Stderr, "usage: xmc check <ID> [quick|thorough] | xmc replay <file> | xmc list")
	os.Exit(2)
}

func main() {
	if len(os.Args) < 2 {
		usage()
	}
	switch os.Args[1] {
	case "list":
		var ids []string
		for id := range core.Registry {
			ids = append(ids, id)
		}
		sort.Strings(ids)
		for _, id := range ids {
			fmt.Println(id)
		}
	case "check":
		if len(os.Args) < 3 {
			usage()
		}
		p := core.Registry[os.Args[2]]
		if p == nil {
			fmt.Fprintln(os.Stderr, "unknown property", os.Args[2])
			os.Exit(2)
		}
		tier := os.Getenv("VERIF_TIER")
		if len(os.Args) > 3 {
			tier = os.Args[3]
		}
		if tier != "thorough" {
			tier = "quick"
		}
		seed, _ := strconv.ParseInt(os.Getenv("VERIF_SEED"), 10, 64)
		os.Exit(core.RunCheck(p, tier, seed))
	case "worker":
		if len(os.Args) < 8 {
			usage()
		}
		p := core.Registry[os.Args[2]]
		seed, _ := strconv.ParseInt(os.Args[4], 10, 64)
		shard, _ := strconv.Atoi(os.Args[5])
		n, _ := strconv.Atoi(os.Args[6])
		budget, _ := strconv.Atoi(os.Args[7])
		core.RunWorker(p, os.Args[3], seed, shard, n, time.Duration(budget)*time.Second)
	case "replay":
		if len(os.Args) < 3 {
			usage()
		}
		b, err := os.ReadFile(os.Args[2])
		if err != nil {
			fmt.Fprintln(os.Stderr, err)
			os.Exit(2)
		}
		var v core.Violation
		if err := json.Unmarshal(b, &v); err != nil {
			fmt.Fprintln(os.Stderr, err)
			os.Exit(2)
		}
		p := core.Registry[v.Property]
		if p == nil || p.Replay == nil {
			fmt.Fprintln(os.Stderr, "no replay for", v.Property)
			os.Exit(2)
		}
		out, vs := p.Replay(v.Payload)
		fmt.Println(out)
		if len(vs) > 0 {
			for _, x := range vs {
				x.Property = v.Property
				x.Finish()
				fmt.Printf("VIOLATION property=%s replay=%s\n  kind=%s config=%s case=%s\n  %s\n", v.Property, os.Args[2], x.Kind, x.Config, core.OneLine(x.Case), core.OneLine(core.Short(x.Detail, 800)))
			}
			os.Exit(1)
		}
		fmt.Println("replay: property holds on this case")
	default:
		usage()
	}
}
