package gen

// Nesting family: every chain of <= d nesting constructors (blocks, function declarations, function
// expressions in every expression position) around a leaf statement, with a sibling statement before
// and after the nested construct at every level (so that leaving a level is observed too).

type Nester struct {
	Name string
	Wrap func(body []*Node) *Node
}

func Nesters(full bool) []Nester {
	fn := func(body []*Node) *Node { return F("", nil, body...) }
	ns := []Nester{
		{"block", func(b []*Node) *Node { return Block(b...) }},
		{"funcdecl", func(b []*Node) *Node { return Func("g", []string{"p"}, b...) }},
		{"fnarg", func(b []*Node) *Node { return Ex(Ca(I("f"), I("a"), fn(b))) }},
		{"ifblk", func(b []*Node) *Node { return If(I("c"), Block(b...), nil) }},
		{"fnlet", func(b []*Node) *Node { return Let("w", fn(b)) }},
		{"fncond", func(b []*Node) *Node { return If(Ca(fn(b)), Ex(I("t")), nil) }},
	}
	if !full {
		return ns
	}
	return append(ns,
		Nester{"elseblk", func(b []*Node) *Node { return If(I("c"), Ex(I("t")), Block(b...)) }},
		Nester{"whileblk", func(b []*Node) *Node { return While(I("c"), Block(b...)) }},
		Nester{"forblk", func(b []*Node) *Node {
			return For(LetExpr("i", N("0")), Bi("<", I("i"), N("2")), Po("++", I("i")), Block(b...))
		}},
		Nester{"fnarr", func(b []*Node) *Node { return Ex(Ar(I("a"), fn(b))) }},
		Nester{"fnobj", func(b []*Node) *Node { return Ex(As("=", I("x"), Ob(I("k"), fn(b)))) }},
		Nester{"fnret", func(b []*Node) *Node { return Ret(fn(b)) }},
		Nester{"fniife", func(b []*Node) *Node { return Ex(Ca(G(F("n", []string{"q"}, b...)))) }},
		Nester{"fnwhilecond", func(b []*Node) *Node { return While(Ca(fn(b)), Ex(I("t"))) }},
		Nester{"fnforupd", func(b []*Node) *Node { return For(nil, nil, Ca(fn(b)), Ex(I("t"))) }},
		Nester{"fnbin", func(b []*Node) *Node { return Ex(Bi("+", I("a"), Ca(fn(b)))) }},
		Nester{"fnidx", func(b []*Node) *Node { return Ex(Ix(I("a"), Ca(fn(b)))) }},
	)
}

// NestLeaves are the innermost bodies.
func NestLeaves() [][]*Node {
	return [][]*Node{
		{Ex(Bi("+", I("a"), Ca(I("f"), I("b"))))},
		{},
		{Let("z", N("1")), Ret(I("z"))},
	}
}

// NestChains enumerates every chain of exactly depth nesters (outermost first) x every leaf.
func NestChains(ns []Nester, depth int, f func(prog []*Node, name string)) {
	idx := make([]int, depth)
	for {
		for li, leaf := range NestLeaves() {
			body := make([]*Node, len(leaf))
			for i, s := range leaf {
				body[i] = cloneNode(s)
			}
			name := "leaf" + itoa(li)
			for d := depth - 1; d >= 0; d-- {
				w := ns[idx[d]].Wrap(body)
				name = ns[idx[d]].Name + "/" + name
				body = []*Node{Ex(I("u")), w, Ex(Ca(I("v")))}
			}
			f(body, name)
		}
		i := depth - 1
		for i >= 0 {
			idx[i]++
			if idx[i] < len(ns) {
				break
			}
			idx[i] = 0
			i--
		}
		if i < 0 {
			return
		}
	}
}
