package gen

import "strings"

// Statement families (S) and layout enumeration.

// SimpleStmts: statements without sub-statements; the expression statements cover every first-token
// class that matters for automatic semicolon insertion: ( [ - ++ ` identifier, plus let / return.
func SimpleStmts() []*Node {
	return []*Node{
		Ex(I("a")),
		Ex(Ca(I("f"), I("a"))),
		Ex(As("=", I("x"), I("b"))),
		Let("x", I("a")),
		Let("y", nil),
		Ret(I("a")),
		Ret(nil),
		Ex(G(I("a"))),
		Ex(Ar(I("a"))),
		Ex(U("-", I("a"))),
		Ex(U("++", I("a"))),
		Ex(T_("`t`")),
		Ex(Po("++", I("a"))),
		Ex(Bi("+", I("a"), I("b"))),
		Ex(As("+=", I("x"), I("b"))),
	}
}

// CoreStmts is the small representative subset used where the product is large.
func CoreStmts() []*Node {
	s := SimpleStmts()
	return []*Node{s[0], s[2], s[3], s[5], s[7], s[8], s[9]}
}

// Compound builds every compound form around the given body statements (each body is used brace-less,
// in a block, and in a block with a sibling).
func Compound(bodies []*Node) []*Node {
	var out []*Node
	cl := func(n *Node) *Node { return cloneNode(n) }
	for _, b := range bodies {
		blk := Block(cl(b))
		blk2 := Block(cl(b), Ex(I("z")))
		// brace-less bodies: a let declaration is not a valid brace-less body in JS
		if b.K != SLet && b.K != SFunc {
			out = append(out,
				If(I("c"), cl(b), nil),
				While(I("c"), cl(b)),
				For(LetExpr("i", N("0")), Bi("<", I("i"), N("2")), Po("++", I("i")), cl(b)),
			)
			if b.K != SIf { // avoid dangling else
				out = append(out, If(I("c"), cl(b), Ex(I("e"))))
			}
			out = append(out, If(I("c"), Block(Ex(I("t"))), cl(b)))
		}
		out = append(out,
			If(I("c"), blk, nil),
			If(I("c"), cl(blk), cl(blk2)),
			While(I("c"), cl(blk2)),
			For(nil, nil, nil, cl(blk)),
			For(As("=", I("i"), N("0")), nil, nil, cl(blk)),
			cl(blk2),
			Block(),
			Func("g", []string{"p"}, cl(b)),
			Func("h", nil, cl(b), Ret(I("p"))),
			Ex(Ca(I("f"), F("", nil, cl(b)))),
			Ex(As("=", I("x"), F("n", []string{"p", "q"}, cl(b)))),
			Ex(Ar(F("", nil, cl(b)))),
			Ex(As("=", I("x"), Ob(I("k"), F("", nil, cl(b))))),
			Let("w", F("", nil, cl(b))),
			If(Ca(F("", nil, cl(b))), Ex(I("t")), nil),
		)
	}
	return out
}

// Programs enumerates statement lists: level 0 = one or two simple statements (all ordered pairs);
// level 1 adds compound statements around simple bodies, alone and followed/preceded by each core
// statement; level 2 nests compound statements inside compound statements.
func Programs(level int, f func(prog []*Node, name string)) {
	simple := SimpleStmts()
	for i, s := range simple {
		f([]*Node{cloneNode(s)}, "s"+itoa(i))
		for j, t := range simple {
			f([]*Node{cloneNode(s), cloneNode(t)}, "s"+itoa(i)+"+s"+itoa(j))
		}
	}
	if level < 1 {
		return
	}
	core := CoreStmts()
	c1 := Compound(simple)
	for i, s := range c1 {
		f([]*Node{cloneNode(s)}, "c"+itoa(i))
		for j, t := range core {
			f([]*Node{cloneNode(s), cloneNode(t)}, "c"+itoa(i)+"+k"+itoa(j))
			f([]*Node{cloneNode(t), cloneNode(s)}, "k"+itoa(j)+"+c"+itoa(i))
		}
	}
	if level < 2 {
		return
	}
	c1core := Compound(core)
	c2 := Compound(c1core)
	for i, s := range c2 {
		f([]*Node{cloneNode(s)}, "d"+itoa(i))
		f([]*Node{cloneNode(s), Ex(G(I("a")))}, "d"+itoa(i)+"+p")
	}
}

func itoa(i int) string {
	if i == 0 {
		return "0"
	}
	var b []byte
	for i > 0 {
		b = append([]byte{byte('0' + i%10)}, b...)
		i /= 10
	}
	return string(b)
}

// ---------- layouts with bounded deviations

// GapAlts are the non-default gaps (default is one space).
var GapAlts = []string{"\n", "", " // c\n", "\n\n", "\t", "\r\n", "\n  "}

// Dev is one deviation from the default layout.
type Dev struct {
	Tok  int    // token index (gap before it, or the optional semicolon itself)
	Gap  string // for gap deviations
	Semi int    // 1: semicolon dropped + line break, 2: dropped bare (before } or end)
}

// Layouts enumerates every layout with at most k deviations: each gap may take an alternative from
// gapAlts, each optional semicolon may be dropped (replaced by a line break, or bare when the next
// token is } or the end of input).
func Layouts(toks []Tok, k int, gapAlts []string, f func(text string, devs []Dev)) {
	type point struct {
		tok  int
		alts []Dev
	}
	var pts []point
	for i, t := range toks {
		if t.OptSemi {
			alts := []Dev{{Tok: i, Semi: 1}}
			if i+1 == len(toks) || toks[i+1].Text == "}" {
				alts = append(alts, Dev{Tok: i, Semi: 2})
			}
			pts = append(pts, point{i, alts})
		}
		if i > 0 {
			var alts []Dev
			for _, g := range gapAlts {
				alts = append(alts, Dev{Tok: i, Gap: g})
			}
			pts = append(pts, point{i, alts})
		}
	}
	var cur []Dev
	render := func() {
		gap := map[int]string{}
		semi := map[int]int{}
		for _, d := range cur {
			if d.Semi != 0 {
				semi[d.Tok] = d.Semi
			} else {
				gap[d.Tok] = d.Gap
			}
		}
		text := Render(toks, func(i int) string {
			if g, ok := gap[i]; ok {
				return g
			}
			return " "
		}, func(i int) int { return semi[i] })
		f(text, cur)
	}
	var rec func(start, left int)
	rec = func(start, left int) {
		render()
		if left == 0 {
			return
		}
		for p := start; p < len(pts); p++ {
			for _, a := range pts[p].alts {
				cur = append(cur, a)
				rec(p+1, left-1)
				cur = cur[:len(cur)-1]
			}
		}
	}
	rec(0, k)
}

// LineInitialBrackets returns, for a rendered text's token list, whether any ( or [ is the first
// token on its line.
func HasLineInitialBracket(text string) bool {
	for _, ln := range strings.Split(text, "\n")[1:] {
		t := strings.TrimLeft(ln, " \t\r")
		if strings.HasPrefix(t, "(") || strings.HasPrefix(t, "[") {
			return true
		}
	}
	return false
}
