package gen

import (
	"fmt"
	"strings"
)

// Scale family: regular programs whose SIZE is the variable — lengths, counts and depths around powers
// of two and other typical thresholds (9, 10, 16, 17, 32, 64, 100, 128, 255, 256, 257, 1024 ...). The small
// universes enumerate every shape up to a few tokens; this family complements them with one shape per
// size, so that a buffer, counter or recursion limit inside the implementation is crossed on every run.
// All programs are valid, terminate, and only use identifiers the behavioural harness binds.

type ScaleProg struct {
	Name string
	Src  string
}

var scaleSizes = []int{9, 10, 16, 17, 33, 65, 129, 257}

// Scale returns the family; big selects the larger sizes as well (thorough tier).
func Scale(big bool) []ScaleProg {
	var out []ScaleProg
	add := func(name, src string) { out = append(out, ScaleProg{name, src}) }
	sizes := scaleSizes
	if !big {
		sizes = []int{9, 10, 17, 33, 65, 129}
	}
	ops := []string{"+", "*", "-", "/", "%", "==", "<", "&&", "||", "!=", ">=", "+"}
	for _, n := range sizes {
		// long chains
		var same, names []string
		for i := 0; i < n; i++ {
			same = append(same, fmt.Sprint(i%7+1))
			names = append(names, fmt.Sprintf("v%d", i))
		}
		add(fmt.Sprintf("sum-chain-%d", n), "print("+strings.Join(same, " + ")+");")
		add(fmt.Sprintf("sub-chain-%d", n), "print("+strings.Join(same, " - ")+");")
		var mb strings.Builder
		for i := 0; i < n; i++ {
			if i > 0 {
				mb.WriteString(" " + ops[i%len(ops)] + " ")
			}
			mb.WriteString(fmt.Sprint(i%5 + 1))
		}
		add(fmt.Sprintf("mixed-chain-%d", n), "print("+mb.String()+");")
		// right-nested explicit grouping and unary runs
		add(fmt.Sprintf("paren-depth-%d", n), "print("+strings.Repeat("(", n)+"1 + 2"+strings.Repeat(")", n)+" * 3);")
		add(fmt.Sprintf("right-nest-%d", n), "print("+strings.Repeat("1 - (", n)+"2"+strings.Repeat(")", n)+");")
		add(fmt.Sprintf("unary-run-%d", n), "print("+strings.Repeat("- ", n)+"1, "+strings.Repeat("!", n)+"1);")
		// many statements / declarations / distinct identifiers
		var decl, uses strings.Builder
		for i, v := range names {
			fmt.Fprintf(&decl, "let %s = %d;\n", v, i)
		}
		uses.WriteString("print(" + strings.Join(names, " + ") + ");")
		add(fmt.Sprintf("many-lets-%d", n), decl.String()+uses.String())
		add(fmt.Sprintf("many-lets-nosemi-%d", n), strings.ReplaceAll(decl.String(), ";", "")+"print("+names[0]+", "+names[n-1]+")")
		// long argument / element / property lists on one line and one per line
		add(fmt.Sprintf("many-args-%d", n), "print("+strings.Join(same, ", ")+");")
		add(fmt.Sprintf("many-args-lines-%d", n), "print(\n  "+strings.Join(same, ",\n  ")+"\n);")
		add(fmt.Sprintf("array-%d", n), "let r = ["+strings.Join(same, ", ")+"];\nprint(r.length, r["+fmt.Sprint(n-1)+"]);")
		var props []string
		for i := 0; i < n; i++ {
			props = append(props, fmt.Sprintf("k%d: %d", i, i))
		}
		add(fmt.Sprintf("object-%d", n), "let o = {"+strings.Join(props, ", ")+"};\nprint(o.k0, o.k"+fmt.Sprint(n-1)+");")
		var params []string
		for i := 0; i < n; i++ {
			params = append(params, fmt.Sprintf("p%d", i))
		}
		add(fmt.Sprintf("many-params-%d", n), "function m("+strings.Join(params, ", ")+") { return p0 + p"+fmt.Sprint(n-1)+" }\nprint(m("+strings.Join(same, ", ")+"));")
		// chains of suffixes
		add(fmt.Sprintf("member-chain-%d", n), "let o = {};\no.o = o;\nprint(o"+strings.Repeat(".o", n)+" == o);")
		add(fmt.Sprintf("index-chain-%d", n), "let r = [];\nr[0] = r;\nprint(r"+strings.Repeat("[0]", n)+" == r);")
		add(fmt.Sprintf("call-chain-%d", n), "function h() { return h }\nprint(h"+strings.Repeat("()", n)+" == h);")
		// nesting depth: blocks, functions, if/else chains, function expressions in arguments
		add(fmt.Sprintf("block-depth-%d", n), strings.Repeat("{ ", n)+"print(1);"+strings.Repeat(" }", n))
		add(fmt.Sprintf("block-depth-lines-%d", n), strings.Repeat("{\n", n)+"print(1)\n"+strings.Repeat("}\n", n))
		var fd strings.Builder
		for i := 0; i < n; i++ {
			fmt.Fprintf(&fd, "function d%d() {\n", i)
		}
		fd.WriteString("return 7\n")
		for i := n - 1; i >= 0; i-- {
			if i > 0 {
				fmt.Fprintf(&fd, "}\nreturn d%d()\n", i)
			} else {
				fd.WriteString("}\n")
			}
		}
		fd.WriteString("print(d0());")
		add(fmt.Sprintf("function-depth-%d", n), fd.String())
		add(fmt.Sprintf("fnexpr-depth-%d", n), "print("+strings.Repeat("(function() { return ", n)+"5"+strings.Repeat(" })()", n)+");")
		var chain strings.Builder
		for i := 0; i < n; i++ {
			fmt.Fprintf(&chain, "if (a == %d) { print(%d) } else ", i+100, i)
		}
		chain.WriteString("{ print(0) }")
		add(fmt.Sprintf("else-if-chain-%d", n), chain.String())
		var bl strings.Builder
		for i := 0; i < n; i++ {
			fmt.Fprintf(&bl, "if (T1) ")
		}
		bl.WriteString("print(3); else print(4);")
		add(fmt.Sprintf("dangling-else-%d", n), bl.String())
		// long tokens and long lines
		long := strings.Repeat("ab", n)
		add(fmt.Sprintf("long-identifier-%d", 2*n), "let "+long+" = 1;\nprint("+long+");")
		add(fmt.Sprintf("long-string-%d", 2*n), "print('"+long+"', \""+long+"\".length, `"+long+"`);")
		add(fmt.Sprintf("long-number-%d", n), "print(1"+strings.Repeat("0", n)+", 0."+strings.Repeat("0", n)+"1, 0x"+strings.Repeat("f", n%12+1)+");")
		add(fmt.Sprintf("long-comment-%d", 2*n), "// "+long+"\nprint(1); // "+long+"\n// "+long)
		add(fmt.Sprintf("many-comments-%d", n), strings.Repeat("// c\n", n)+"print(1)\n"+strings.Repeat("\n", n)+"print(2)\n"+strings.Repeat("// d\n", n))
		add(fmt.Sprintf("template-lines-%d", n), "print(`"+strings.Repeat("line \n", n)+"`.length);")
		add(fmt.Sprintf("indent-%d", n), strings.Repeat(" ", n)+"print(1);\n"+strings.Repeat("\t", n)+"print(2);")
		// loops that run n times (state that builds up while running)
		add(fmt.Sprintf("loop-%d", n), fmt.Sprintf("let s = 0;\nfor (let i = 0; i < %d; i++) { s += i }\nprint(s);", n))
		add(fmt.Sprintf("while-%d", n), fmt.Sprintf("let j = %d;\nlet s = '';\nwhile (j > 0) { j--; s += 'x' }\nprint(s.length);", n))
	}
	// one line far beyond typical I/O buffer sizes (4 KiB, 64 KiB; 1 MiB in the thorough tier)
	for _, n := range []int{5000, 70000} {
		add(fmt.Sprintf("huge-string-line-%d", n), "let s = '"+strings.Repeat("s", n)+"';\nprint(s.length);\nlet t = `x  \n y`;\nprint(t)")
		var el []string
		for i := 0; i < n/5; i++ {
			el = append(el, fmt.Sprint(i%97))
		}
		add(fmt.Sprintf("huge-array-line-%d", n), "let r = ["+strings.Join(el, ", ")+"];\nfunction after(v) { return v + 1 }\nprint(r.length, after(r[3]));")
	}
	if big {
		add("huge-string-line-1200000", "let s = \""+strings.Repeat("m", 1200000)+"\";\nprint(s.length);\nprint(`k \n`)")
		for _, n := range []int{1025, 4097} {
			var b strings.Builder
			for i := 0; i < n; i++ {
				fmt.Fprintf(&b, "x = %d;\n", i)
			}
			add(fmt.Sprintf("many-statements-%d", n), b.String()+"print(x);")
			add(fmt.Sprintf("long-line-%d", n), "print("+strings.Repeat("1 + ", n)+"1);")
			add(fmt.Sprintf("very-long-string-%d", n), "print('"+strings.Repeat("s", n)+"'.length);")
		}
	}
	return out
}
