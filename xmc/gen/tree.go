package gen

import (
	"fmt"
	"strings"
)

// Harness-side syntax trees (independent of xjs/ast), an independent unparser with its own ECMAScript
// precedence table, and enumerated tree families.

type Kind int

const (
	// expressions
	Id Kind = iota
	Num
	Str
	Tpl
	Bool
	Null
	Un   // Op, A
	Post // Op, A
	Bin  // Op, A, B
	Asg  // Op (= += -=), A, B
	Call // A, L
	Dot  // A, Op=name
	Idx  // A, B
	Arr  // L
	Obj  // L = key0, val0, key1, val1...
	Fn   // Op=name (may be ""), P params, L body statements
	Grp  // A (explicit redundant parentheses)
	LetE // Op=name, A init (for-loop initialiser)
	// statements
	SLet   // Op=name, A init?
	SFunc  // Op=name, P, L
	SRet   // A?
	SIf    // A cond, B then, C else?
	SWhile // A, B
	SFor   // A init?, B cond?, C update?, D body
	SBlock // L
	SExpr  // A
)

type Node struct {
	K          Kind
	Op         string
	A, B, C, D *Node
	L          []*Node
	P          []string
}

func (n *Node) IsStmt() bool { return n.K >= SLet }

// constructors
func I(name string) *Node             { return &Node{K: Id, Op: name} }
func N(text string) *Node             { return &Node{K: Num, Op: text} }
func S(text string) *Node             { return &Node{K: Str, Op: text} } // text includes quotes
func T_(text string) *Node            { return &Node{K: Tpl, Op: text} }
func B_(v string) *Node               { return &Node{K: Bool, Op: v} }
func Nul() *Node                      { return &Node{K: Null} }
func U(op string, a *Node) *Node      { return &Node{K: Un, Op: op, A: a} }
func Po(op string, a *Node) *Node     { return &Node{K: Post, Op: op, A: a} }
func Bi(op string, a, b *Node) *Node  { return &Node{K: Bin, Op: op, A: a, B: b} }
func As(op string, a, b *Node) *Node  { return &Node{K: Asg, Op: op, A: a, B: b} }
func Ca(f *Node, args ...*Node) *Node { return &Node{K: Call, A: f, L: args} }
func Do(o *Node, name string) *Node   { return &Node{K: Dot, A: o, Op: name} }
func Ix(o, i *Node) *Node             { return &Node{K: Idx, A: o, B: i} }
func Ar(el ...*Node) *Node            { return &Node{K: Arr, L: el} }
func Ob(kv ...*Node) *Node            { return &Node{K: Obj, L: kv} }
func F(name string, params []string, body ...*Node) *Node {
	return &Node{K: Fn, Op: name, P: params, L: body}
}
func G(a *Node) *Node                { return &Node{K: Grp, A: a} }
func Let(name string, a *Node) *Node { return &Node{K: SLet, Op: name, A: a} }
func Func(name string, params []string, body ...*Node) *Node {
	return &Node{K: SFunc, Op: name, P: params, L: body}
}
func Ret(a *Node) *Node                  { return &Node{K: SRet, A: a} }
func If(c, t, e *Node) *Node             { return &Node{K: SIf, A: c, B: t, C: e} }
func While(c, b *Node) *Node             { return &Node{K: SWhile, A: c, B: b} }
func For(i, c, u, b *Node) *Node         { return &Node{K: SFor, A: i, B: c, C: u, D: b} }
func Block(st ...*Node) *Node            { return &Node{K: SBlock, L: st} }
func Ex(a *Node) *Node                   { return &Node{K: SExpr, A: a} }
func LetExpr(name string, a *Node) *Node { return &Node{K: LetE, Op: name, A: a} }

// ECMAScript precedence levels (independent of xjs's tables).
const (
	pAssign = 2
	pOr     = 3
	pAnd    = 4
	pEq     = 5
	pRel    = 6
	pAdd    = 7
	pMul    = 8
	pUnary  = 9
	pPost   = 10
	pCall   = 11
	pMember = 12
	pAtom   = 13
)

var BinPrec = map[string]int{"||": pOr, "&&": pAnd, "==": pEq, "!=": pEq, "<": pRel, ">": pRel, "<=": pRel, ">=": pRel, "+": pAdd, "-": pAdd, "*": pMul, "/": pMul, "%": pMul}

var BinOps = []string{"+", "-", "*", "/", "%", "==", "!=", "<", ">", "<=", ">=", "&&", "||"}
var AsgOps = []string{"=", "+=", "-="}
var PreOps = []string{"-", "!", "++", "--"}
var PostOps = []string{"++", "--"}

func Prec(n *Node) int {
	switch n.K {
	case Un:
		return pUnary
	case Post:
		return pPost
	case Bin:
		return BinPrec[n.Op]
	case Asg, LetE:
		return pAssign
	case Call:
		return pCall
	case Dot, Idx:
		return pMember
	}
	return pAtom
}

// Shape is the canonical S-expression (same format as ref.GShape / ref.XStmts), grouping dropped.
func Shape(n *Node) string {
	opt := func(x *Node) string {
		if x == nil {
			return "_"
		}
		return Shape(x)
	}
	list := func(l []*Node) string {
		var b []string
		for _, x := range l {
			b = append(b, Shape(x))
		}
		return "[" + strings.Join(b, " ") + "]"
	}
	switch n.K {
	case Id:
		return "(id " + n.Op + ")"
	case Num:
		return "(num " + n.Op + ")"
	case Str:
		return "(str)"
	case Tpl:
		return "(tpl)"
	case Bool:
		return "(bool " + n.Op + ")"
	case Null:
		return "(null)"
	case Un:
		return fmt.Sprintf("(un %s %s)", n.Op, Shape(n.A))
	case Post:
		return fmt.Sprintf("(post %s %s)", n.Op, Shape(n.A))
	case Bin:
		return fmt.Sprintf("(bin %s %s %s)", n.Op, Shape(n.A), Shape(n.B))
	case Asg:
		return fmt.Sprintf("(assign %s %s %s)", n.Op, Shape(n.A), Shape(n.B))
	case Call:
		return fmt.Sprintf("(call %s %s)", Shape(n.A), list(n.L))
	case Dot:
		return fmt.Sprintf("(dot %s %s)", Shape(n.A), n.Op)
	case Idx:
		return fmt.Sprintf("(idx %s %s)", Shape(n.A), Shape(n.B))
	case Arr:
		return "(arr " + list(n.L) + ")"
	case Obj:
		var ps []string
		for i := 0; i+1 < len(n.L); i += 2 {
			k := n.L[i]
			key := k.Op
			if k.K == Str {
				key = k.Op[1 : len(k.Op)-1]
			}
			ps = append(ps, "k:"+key+"="+Shape(n.L[i+1]))
		}
		return "(obj [" + strings.Join(ps, " ") + "])"
	case Fn:
		name := n.Op
		if name == "" {
			name = "_"
		}
		return fmt.Sprintf("(fn %s (%s) %s)", name, strings.Join(n.P, ","), list(n.L))
	case Grp:
		return Shape(n.A)
	case LetE, SLet:
		return fmt.Sprintf("(let %s %s)", n.Op, opt(n.A))
	case SFunc:
		return fmt.Sprintf("(func %s (%s) %s)", n.Op, strings.Join(n.P, ","), list(n.L))
	case SRet:
		return "(return " + opt(n.A) + ")"
	case SIf:
		return fmt.Sprintf("(if %s %s %s)", Shape(n.A), Shape(n.B), opt(n.C))
	case SWhile:
		return fmt.Sprintf("(while %s %s)", Shape(n.A), Shape(n.B))
	case SFor:
		return fmt.Sprintf("(for %s %s %s %s)", opt(n.A), opt(n.B), opt(n.C), Shape(n.D))
	case SBlock:
		return "(block " + list(n.L) + ")"
	case SExpr:
		return "(expr " + Shape(n.A) + ")"
	}
	return "?"
}

func ShapeProgram(stmts []*Node) string {
	var b []string
	for _, s := range stmts {
		b = append(b, Shape(s))
	}
	return "[" + strings.Join(b, " ") + "]"
}

// ---------- unparser

// Ctx is one element of a token's nesting path.
type Ctx byte

const (
	CtxBlock Ctx = 'B'
	CtxFunc  Ctx = 'F'
)

// Tok is one emitted token with the roles the oracles need.
type Tok struct {
	Text      string
	Role      string // "", "infix(" "infix[" "prefix(" "prefix[" "group(" "postfix" "semi" "afterReturn" ...
	OptSemi   bool   // statement-terminating semicolon that a line break / `}` / EOF may replace
	StmtStart bool   // first token of a statement
	Path      string // nesting path of enclosing blocks / function bodies, e.g. "FB" (outermost first)
	StmtIdx   int    // ordinal of the enclosing statement-list entry (diagnostics)
}

type Unparser struct {
	Toks      []Tok
	Redundant bool // parenthesise every sub-expression
	path      []byte
}

func (u *Unparser) emit(text, role string) {
	u.Toks = append(u.Toks, Tok{Text: text, Role: role, Path: string(u.path)})
}

func (u *Unparser) markStart(from int) {
	if from < len(u.Toks) {
		u.Toks[from].StmtStart = true
	}
}

// leftmost reports the first token text the expression would emit without parentheses.
func leftmostKind(n *Node) Kind {
	for {
		switch n.K {
		case Post, Bin, Asg, Call, Dot, Idx:
			n = n.A
		default:
			return n.K
		}
	}
}

// expr emits n, parenthesised if its precedence is below min.
func (u *Unparser) expr(n *Node, min int) {
	need := Prec(n) < min
	if u.Redundant && n.K != Grp && min > 0 {
		need = true
	}
	if need {
		u.emit("(", "group(")
		u.exprBare(n)
		u.emit(")", "group)")
		return
	}
	u.exprBare(n)
}

func (u *Unparser) exprBare(n *Node) {
	switch n.K {
	case Id, Num, Str, Tpl, Bool:
		u.emit(n.Op, "")
	case Null:
		u.emit("null", "")
	case Un:
		u.emit(n.Op, "prefixop")
		u.expr(n.A, pUnary)
	case Post:
		u.expr(n.A, pCall)
		u.emit(n.Op, "postfix")
	case Bin:
		p := BinPrec[n.Op]
		u.expr(n.A, p)
		u.emit(n.Op, "binop")
		u.expr(n.B, p+1)
	case Asg:
		u.expr(n.A, pCall)
		u.emit(n.Op, "asgop")
		u.expr(n.B, pAssign)
	case Call:
		u.expr(n.A, pCall)
		u.emit("(", "infix(")
		for i, a := range n.L {
			if i > 0 {
				u.emit(",", "")
			}
			u.expr(a, pAssign)
		}
		u.emit(")", "")
	case Dot:
		if n.A.K == Num {
			u.emit("(", "group(")
			u.exprBare(n.A)
			u.emit(")", "group)")
		} else {
			u.expr(n.A, pCall)
		}
		u.emit(".", "")
		u.emit(n.Op, "")
	case Idx:
		u.expr(n.A, pCall)
		u.emit("[", "infix[")
		u.expr(n.B, 0)
		u.emit("]", "")
	case Arr:
		u.emit("[", "prefix[")
		for i, a := range n.L {
			if i > 0 {
				u.emit(",", "")
			}
			u.expr(a, pAssign)
		}
		u.emit("]", "")
	case Obj:
		u.emit("{", "obj{")
		for i := 0; i+1 < len(n.L); i += 2 {
			if i > 0 {
				u.emit(",", "")
			}
			u.emit(n.L[i].Op, "")
			u.emit(":", "")
			u.expr(n.L[i+1], pAssign)
		}
		u.emit("}", "obj}")
	case Fn:
		u.emit("function", "")
		if n.Op != "" {
			u.emit(n.Op, "")
		}
		u.params(n.P)
		u.body(n.L, CtxFunc)
		u.Toks[len(u.Toks)-1].Role = "fnexpr}"
	case Grp:
		u.emit("(", "prefix(")
		u.expr(n.A, 0)
		u.emit(")", "group)")
	case LetE:
		u.emit("let", "")
		u.emit(n.Op, "")
		if n.A != nil {
			u.emit("=", "")
			u.expr(n.A, pAssign)
		}
	default:
		panic(fmt.Sprintf("exprBare: kind %d", n.K))
	}
}

func (u *Unparser) params(ps []string) {
	u.emit("(", "")
	for i, p := range ps {
		if i > 0 {
			u.emit(",", "")
		}
		u.emit(p, "")
	}
	u.emit(")", "")
}

func (u *Unparser) body(st []*Node, c Ctx) {
	u.emit("{", "body{")
	u.path = append(u.path, byte(c))
	for _, s := range st {
		u.Stmt(s)
	}
	u.path = u.path[:len(u.path)-1]
	u.emit("}", "body}")
}

// slot emits an expression in a statement-level slot (initialiser, return value, condition, header
// part, expression statement); in redundant mode it is parenthesised too.
func (u *Unparser) slot(n *Node) {
	if u.Redundant && n.K != LetE {
		u.expr(n, 1)
		return
	}
	u.expr(n, 0)
}

func (u *Unparser) slotAssign(n *Node) {
	if u.Redundant {
		u.expr(n, pAssign) // redundant mode parenthesises anyway
		return
	}
	u.expr(n, pAssign)
}

func (u *Unparser) semi() {
	u.Toks = append(u.Toks, Tok{Text: ";", Role: "semi", OptSemi: true, Path: string(u.path)})
}

func (u *Unparser) Stmt(n *Node) {
	from := len(u.Toks)
	switch n.K {
	case SLet:
		u.emit("let", "")
		u.emit(n.Op, "")
		if n.A != nil {
			u.emit("=", "")
			u.slotAssign(n.A)
		}
		u.semi()
	case SFunc:
		u.emit("function", "")
		u.emit(n.Op, "")
		u.params(n.P)
		u.body(n.L, CtxFunc)
	case SRet:
		u.emit("return", "")
		if n.A != nil {
			at := len(u.Toks)
			u.slot(n.A)
			u.Toks[at].Role += "|afterReturn"
		}
		u.semi()
	case SIf:
		u.emit("if", "")
		u.emit("(", "")
		u.slot(n.A)
		u.emit(")", "header)")
		u.Stmt(n.B)
		if n.C != nil {
			u.emit("else", "")
			u.Stmt(n.C)
		}
	case SWhile:
		u.emit("while", "")
		u.emit("(", "")
		u.slot(n.A)
		u.emit(")", "header)")
		u.Stmt(n.B)
	case SFor:
		u.emit("for", "")
		u.emit("(", "")
		if n.A != nil {
			u.slot(n.A)
		}
		u.emit(";", "")
		if n.B != nil {
			u.slot(n.B)
		}
		u.emit(";", "")
		if n.C != nil {
			u.slot(n.C)
		}
		u.emit(")", "header)")
		u.Stmt(n.D)
	case SBlock:
		u.emit("{", "block{")
		u.path = append(u.path, byte(CtxBlock))
		for _, s := range n.L {
			u.Stmt(s)
		}
		u.path = u.path[:len(u.path)-1]
		u.emit("}", "block}")
	case SExpr:
		lk := leftmostKind(n.A)
		if lk == Obj || lk == Fn || (lk == Id && leftmostName(n.A) == "let") {
			u.emit("(", "prefix(")
			u.expr(n.A, 0)
			u.emit(")", "group)")
		} else {
			u.slot(n.A)
		}
		u.semi()
	default:
		panic(fmt.Sprintf("Stmt: kind %d", n.K))
	}
	u.markStart(from)
}

func leftmostName(n *Node) string {
	for {
		switch n.K {
		case Post, Bin, Asg, Call, Dot, Idx:
			n = n.A
		default:
			return n.Op
		}
	}
}

// UnparseProgram returns the token list of a statement list.
func UnparseProgram(stmts []*Node, redundant bool) []Tok {
	u := &Unparser{Redundant: redundant}
	for _, s := range stmts {
		u.Stmt(s)
	}
	return u.Toks
}

// ---------- rendering with layouts

// needSpace: two adjacent token texts that would fuse or change meaning when written without a gap.
func needSpace(a, b string) bool {
	if a == "" || b == "" {
		return false
	}
	x, y := a[len(a)-1], b[0]
	word := func(c byte) bool {
		return c >= 'a' && c <= 'z' || c >= 'A' && c <= 'Z' || c >= '0' && c <= '9' || c == '_' || c == '$'
	}
	if word(x) && word(y) {
		return true
	}
	if (x == '+' && y == '+') || (x == '-' && y == '-') {
		return true
	}
	if x >= '0' && x <= '9' && y == '.' {
		return true
	}
	switch string(x) + string(y) {
	case "==", "!=", "<=", ">=", "&&", "||", "+=", "-=", "//", "/*", "<!":
		return true
	}
	return false
}

// Layout chooses the gap before every token and what happens to optional semicolons.
type Layout struct {
	Gap  func(i int, toks []Tok) string // gap before token i (i>0)
	Semi func(i int, toks []Tok) int    // 0 keep ';', 1 drop and force a line break after, 2 drop (only before } / EOF)
}

// Render produces text. Dropped semicolons force an LF before the next token unless that token is `}`
// or the end (mode 2).
func Render(toks []Tok, gap func(i int) string, semi func(i int) int) string {
	s, _ := RenderOffs(toks, gap, semi)
	return s
}

// RenderOffs is Render that also returns the byte offset of every token (-1 for dropped semicolons).
func RenderOffs(toks []Tok, gap func(i int) string, semi func(i int) int) (string, []int) {
	var b strings.Builder
	offs := make([]int, len(toks))
	prev := ""
	pendingNL := false
	for i, t := range toks {
		offs[i] = -1
		if t.OptSemi && semi != nil {
			switch semi(i) {
			case 1:
				pendingNL = true
				continue
			case 2:
				continue
			}
		}
		g := ""
		if prev != "" {
			g = " "
			if gap != nil {
				g = gap(i)
			}
			if g == "" && needSpace(prev, t.Text) {
				g = " "
			}
			if pendingNL && !strings.Contains(g, "\n") {
				g = "\n"
			}
		}
		pendingNL = false
		b.WriteString(g)
		offs[i] = b.Len()
		b.WriteString(t.Text)
		prev = t.Text
	}
	return b.String(), offs
}

// Compact layout: minimal gaps, all semicolons kept.
func RenderCompact(toks []Tok) string {
	return Render(toks, func(int) string { return "" }, nil)
}

// RenderDefault: one space between tokens, semicolons kept, LF after each semicolon/brace would be
// nicer to read but one space is the canonical default layout.
func RenderDefault(toks []Tok) string { return Render(toks, nil, nil) }

// ---------- enumerated families

// Hole is an expression context with one hole.
type Hole struct {
	Name string
	Fill func(x *Node) *Node
	// Needs: constraint on what may be plugged so that the result is valid JavaScript:
	// "" any expression, "lhs" identifier/member (assignment or update target), "callee" call-level-or-tighter
	Needs string
}

func a() *Node { return I("a") }
func b() *Node { return I("b") }
func c() *Node { return I("c") }

// Holes returns every (constructor, operand position) of the expression grammar.
func Holes(full bool) []Hole {
	var hs []Hole
	bin := BinOps
	if !full {
		bin = []string{"+", "-", "*", "%", "==", "<", "&&", "||"}
	}
	for _, op := range PreOps {
		op := op
		need := ""
		if op == "++" || op == "--" {
			need = "lhs"
		}
		hs = append(hs, Hole{"un" + op, func(x *Node) *Node { return U(op, x) }, need})
	}
	for _, op := range PostOps {
		op := op
		hs = append(hs, Hole{"post" + op, func(x *Node) *Node { return Po(op, x) }, "lhs"})
	}
	for _, op := range bin {
		op := op
		hs = append(hs, Hole{"binL" + op, func(x *Node) *Node { return Bi(op, x, b()) }, ""})
		hs = append(hs, Hole{"binR" + op, func(x *Node) *Node { return Bi(op, a(), x) }, ""})
	}
	for _, op := range AsgOps {
		op := op
		hs = append(hs, Hole{"asgL" + op, func(x *Node) *Node { return As(op, x, b()) }, "lhs"})
		hs = append(hs, Hole{"asgR" + op, func(x *Node) *Node { return As(op, a(), x) }, ""})
	}
	hs = append(hs,
		Hole{"callee", func(x *Node) *Node { return Ca(x, b()) }, "callee"},
		Hole{"callee0", func(x *Node) *Node { return Ca(x) }, "callee"},
		Hole{"arg", func(x *Node) *Node { return Ca(a(), x) }, ""},
		Hole{"arg2", func(x *Node) *Node { return Ca(a(), b(), x) }, ""},
		Hole{"dotobj", func(x *Node) *Node { return Do(x, "p") }, "callee"},
		Hole{"idxobj", func(x *Node) *Node { return Ix(x, b()) }, "callee"},
		Hole{"idxkey", func(x *Node) *Node { return Ix(a(), x) }, ""},
		Hole{"elem", func(x *Node) *Node { return Ar(x) }, ""},
		Hole{"elem2", func(x *Node) *Node { return Ar(a(), x) }, ""},
		Hole{"objval", func(x *Node) *Node { return Ob(I("k"), x) }, ""},
		Hole{"fnret", func(x *Node) *Node { return F("", nil, Ret(x)) }, ""},
		Hole{"group", func(x *Node) *Node { return G(x) }, ""},
	)
	return hs
}

// Leaves are the atomic operands.
func Leaves() []*Node {
	return []*Node{I("a"), N("1"), S("'s'"), T_("`t`"), B_("true"), Nul(), Ar(), Ob(), F("", nil)}
}

// fits reports whether x may be plugged into a hole with the given need.
func fits(x *Node, need string) bool {
	switch need {
	case "lhs":
		k := x.K
		for k == Grp {
			x = x.A
			k = x.K
		}
		return k == Id || k == Dot || k == Idx
	case "callee":
		return Prec(x) >= pCall || x.K == Grp
	}
	return true
}

// Chains enumerates all expressions made of `depth` nested holes around a leaf (depth>=0), calling f
// for each. With validOnly, only combinations satisfying the holes' needs are produced.
func Chains(holes []Hole, leaves []*Node, depth int, validOnly bool, f func(e *Node, name string)) {
	var rec func(d int, build func(x *Node) *Node, need string, name string)
	rec = func(d int, build func(x *Node) *Node, need string, name string) {
		if d == 0 {
			for _, l := range leaves {
				if validOnly && !fits(l, need) {
					continue
				}
				f(build(cloneNode(l)), name)
			}
			return
		}
		for _, h := range holes {
			h := h
			if validOnly {
				// the node this hole produces must fit the outer need
				probe := h.Fill(a())
				if !fits(probe, need) {
					continue
				}
			}
			inner := h.Needs
			if h.Name == "group" && need == "lhs" {
				inner = "lhs" // (x) = 1 is only valid when x itself is a target
			}
			rec(d-1, func(x *Node) *Node { return build(h.Fill(x)) }, inner, name+"/"+h.Name)
		}
	}
	rec(depth, func(x *Node) *Node { return x }, "", "")
}

func Clone(n *Node) *Node { return cloneNode(n) }

func cloneNode(n *Node) *Node {
	if n == nil {
		return nil
	}
	m := *n
	m.A, m.B, m.C, m.D = cloneNode(n.A), cloneNode(n.B), cloneNode(n.C), cloneNode(n.D)
	if n.L != nil {
		m.L = make([]*Node, len(n.L))
		for i, x := range n.L {
			m.L[i] = cloneNode(x)
		}
	}
	return &m
}

// EndsExpression reports whether a token can be the last token of an expression (so that a following
// ( or [ would continue it in standard JavaScript).
func EndsExpression(t Tok) bool {
	switch t.Role {
	case "header)", "block}", "body}", "prefixop", "semi", "binop", "asgop", "block{", "body{", "obj{":
		return false
	case "postfix", "fnexpr}", "obj}", "group)":
		return true
	}
	switch t.Text {
	case ")", "]":
		return true
	case "let", "function", "return", "if", "else", "while", "for", "(", "[", "{", "}", ",", ";", ":", ".", "=":
		return false
	}
	c := t.Text[0]
	return c >= 'a' && c <= 'z' || c >= 'A' && c <= 'Z' || c >= '0' && c <= '9' || c == '\'' || c == '"' || c == '`' || c == '_' || c == '$'
}
