package gen

import "strings"

// Identifier spelling family: the small universes use the names a, b, c...; spelling is a dimension of its
// own (keyword look-up, word-boundary decisions of the printer, name tables of the source map).
var kw = []string{"function", "let", "if", "else", "while", "for", "return", "true", "false", "null"}

// Identifiers returns spellings by class: first characters _ $ upper lower, digits inside, every keyword as
// prefix / suffix / infix / case variant / one-letter-off, lengths 1..40, near-keywords of other languages.
func Identifiers() []string {
	out := []string{"_", "$", "_a", "$a", "a_", "a$", "_1", "$1", "a1", "A", "Z9", "aB", "__proto", "$$", "_$_", "x_y_z", "camelCase", "snake_case", "UPPER", "i", "o0O", "l1I",
		"var", "const", "class", "new", "this", "typeof", "in", "of", "do", "undefined", "NaN", "Infinity", "async", "await", "yield", "static", "get", "set", "arguments", "eval", "print2"}
	for _, k := range kw {
		out = append(out, k+"s", k+"_", k+"1", k+"X", "_"+k, "$"+k, "my_"+k, "x"+k, "a"+k+"b", strings.ToUpper(k), strings.ToUpper(k[:1])+k[1:], k[:len(k)-1], k[1:], k+k, "is_"+k, "callback_"+k)
	}
	for _, n := range []int{2, 7, 8, 9, 15, 16, 17, 31, 32, 33, 40} {
		out = append(out, strings.Repeat("n", n), "_"+strings.Repeat("q", n-1))
	}
	seen := map[string]bool{}
	var uniq []string
	for _, s := range out {
		if !seen[s] {
			seen[s] = true
			uniq = append(uniq, s)
		}
	}
	return uniq
}

// IdentPrograms puts one spelling into every position a name can take.
func IdentPrograms(n string) []string {
	return []string{
		"let " + n + " = 1;\nprint(" + n + ", " + n + " + 1);",
		"function " + n + "(p) { return p + 1 }\nprint(" + n + "(1));",
		"function g(" + n + ", q) { return " + n + " - q }\nprint(g(5, 3));",
		"let o = {" + n + ": 7};\nprint(o." + n + ", o[\"" + n + "\"]);",
		"for (let " + n + " = 0; " + n + " < 2; " + n + "++) print(" + n + ");",
		"let h = function " + n + "(k) { if (k < 1) return 0\n return " + n + "(k - 1) + 1 };\nprint(h(2));",
		"let " + n + "\n" + n + " = 3\n(print)(" + n + ")",
		"if (T1) " + n + " = 2; else " + n + " = 3;\nprint(" + n + ");",
	}
}
