package gen

// Executable program family X for behavioural comparison: every program terminates by construction
// (loops are counter-controlled and never assign their counter in the body).

func pr(args ...*Node) *Node { return Ex(Ca(I("print"), args...)) }

// XStatements returns executable statement lists exercising every statement form, brace-less and block
// bodies, function declarations/expressions, nested blocks, and the ASI-hazard adjacencies.
func XStatements(level int) [][]*Node {
	var out [][]*Node
	add := func(st ...*Node) { out = append(out, st) }
	e1 := func() *Node { return pr(N("1")) }
	e2 := func() *Node { return pr(N("2")) }
	ea := func() *Node { return pr(I("a")) }
	T1 := func() *Node { return I("T1") }
	F0 := func() *Node { return I("F0") }
	lt := func(v string) *Node { return Bi("<", I(v), N("2")) }
	inc := func(v string) *Node { return Po("++", I(v)) }

	// if / else
	for _, c := range []func() *Node{T1, F0} {
		add(If(c(), e1(), nil), e2())
		add(If(c(), e1(), e2()))
		add(If(c(), Block(e1()), Block(e2())))
		add(If(c(), Block(e1(), ea()), nil))
		add(If(c(), e1(), If(T1(), e2(), pr(N("3")))))
		add(If(c(), Block(If(F0(), e1(), nil)), e2()))
		add(If(c(), Ex(As("=", I("x"), N("5"))), Ex(As("=", I("x"), N("6")))), pr(I("x")))
		add(If(Bi("==", c(), N("1")), Ret(nil), nil), e1())
	}
	// brace-less branches that end in the closing brace / parenthesis of a function expression or literal
	for _, c := range []func() *Node{T1, F0} {
		add(If(c(), Ex(Ca(Do(Ar(N("1"), N("2")), "forEach"), F("", []string{"v"}, pr(I("v"))))), e2()))
		add(If(c(), Ex(As("=", I("x"), F("", nil, Ret(N("1"))))), Ex(As("=", I("x"), N("2")))), pr(I("x")))
		add(If(c(), Ex(As("=", I("x"), Ob(I("k"), N("1")))), Ex(As("=", I("x"), Ob()))), pr(Do(I("x"), "k")))
		add(If(c(), Ex(Ca(G(F("", nil, e1())))), e2()))
		add(If(c(), While(F0(), Ex(Ca(I("print"), F("", nil)))), e2()), e1())
		add(If(c(), If(T1(), Ex(Ca(G(F("", nil, e1())))), e2()), pr(N("3"))))
	}
	// while
	add(Let("k", N("0")), While(lt("k"), Block(Ex(inc("k")), pr(I("k")))))
	add(Let("k", N("0")), While(Bi("<", inc("k"), N("2")), pr(I("k"))), e1())
	add(Let("k", N("0")), While(lt("k"), Ex(inc("k"))), pr(I("k")))
	add(Let("k", N("0")), While(lt("k"), Block(Ex(As("+=", I("k"), N("1"))), If(Bi("==", I("k"), N("1")), e1(), e2()))))
	add(Let("k", N("0")), While(lt("k"), Block(Let("j", N("0")), While(lt("j"), Block(Ex(inc("j")), pr(I("k"), I("j")))), Ex(inc("k")))))
	// for
	add(For(LetExpr("i", N("0")), lt("i"), inc("i"), pr(I("i"))))
	add(For(LetExpr("i", N("0")), lt("i"), inc("i"), Block(pr(I("i")), ea())), e1())
	add(Let("k", N("0")), For(nil, lt("k"), nil, Ex(inc("k"))), pr(I("k")))
	add(Let("k", nil), For(As("=", I("k"), N("0")), lt("k"), As("+=", I("k"), N("1")), Block(pr(I("k")))))
	add(For(LetExpr("i", N("0")), lt("i"), U("++", I("i")), For(LetExpr("j", N("0")), lt("j"), inc("j"), pr(I("i"), I("j")))))
	add(For(LetExpr("i", N("3")), Bi(">", I("i"), N("0")), Po("--", I("i")), If(Bi("==", Bi("%", I("i"), N("2")), N("0")), pr(I("i")), nil)))
	// every presence combination of the three header slots; termination by return
	for mask := 0; mask < 8; mask++ {
		var init, cond, upd *Node
		body := []*Node{If(Bi(">=", I("i"), N("2")), Ret(I("i")), nil), pr(I("i"))}
		if mask&1 != 0 {
			init = As("=", I("i"), N("0"))
		}
		if mask&2 != 0 {
			cond = Bi("<", I("i"), N("5"))
		}
		if mask&4 != 0 {
			upd = As("+=", I("i"), N("1"))
		} else {
			body = append(body, Ex(inc("i")))
		}
		add(Func("g", nil, Let("i", N("0")), For(init, cond, upd, Block(body...)), Ret(N("9"))), pr(Ca(I("g"))))
	}
	// grouped expressions in every statement-level slot
	add(Func("g", nil, Ret(G(Bi("+", N("1"), N("2"))))), pr(Ca(I("g"))))
	add(Func("g", nil, Ret(G(I("a")))), pr(Ca(I("g"))))
	add(Let("x", G(N("4"))), If(G(T1()), pr(G(I("x"))), nil), While(G(F0()), e1()), For(G(As("=", I("k"), N("0"))), G(lt("k")), G(inc("k")), e2()))
	add(Ex(G(As("=", I("y"), N("3")))), pr(I("y"), G(G(N("1")))))
	// functions
	add(Func("g", []string{"p"}, Ret(Bi("+", I("p"), N("1")))), pr(Ca(I("g"), N("1"))))
	add(Func("h", nil, If(T1(), Ret(N("1")), nil), Ret(N("2"))), pr(Ca(I("h"))))
	add(Func("h", nil, e1(), Ret(nil), e2()), pr(Ca(I("h"))))
	add(Func("g", []string{"p", "q"}, Ret(Bi("-", I("p"), I("q")))), pr(Ca(I("g"), N("5"), N("3")), Ca(I("g"), N("3"), N("5"))))
	add(pr(Ca(I("g"), N("2"))), Func("g", []string{"p"}, Ret(Bi("*", I("p"), I("p")))))
	add(Let("w", F("", []string{"p"}, Ret(Bi("*", I("p"), N("2"))))), pr(Ca(I("w"), N("3"))))
	add(Let("w", F("fac", []string{"p"}, If(Bi("<", I("p"), N("2")), Ret(N("1")), nil), Ret(Bi("*", I("p"), Ca(I("fac"), Bi("-", I("p"), N("1"))))))), pr(Ca(I("w"), N("4"))))
	add(Ex(Ca(F("", nil, e1()))), e2())
	add(Ex(Ca(F("", []string{"p"}, pr(I("p"))), N("9"))))
	add(Let("o", Ob(I("k"), F("", nil, Ret(N("7"))), I("m"), N("2"))), pr(Ca(Do(I("o"), "k")), Do(I("o"), "m")))
	add(Let("r", Ar(F("", nil, Ret(N("7"))), N("8"))), pr(Ca(Ix(I("r"), N("0"))), Ix(I("r"), N("1"))))
	add(Func("mk", nil, Let("v", N("0")), Ret(F("", nil, Ex(As("+=", I("v"), N("1"))), Ret(I("v"))))), Let("c1", Ca(I("mk"))), pr(Ca(I("c1")), Ca(I("c1"))))
	add(Func("g", nil, Ret(Ob(I("k"), N("1")))), pr(Do(Ca(I("g")), "k")))
	add(Func("g", nil, Ret(Ar(N("1"), N("2")))), pr(Ix(Ca(I("g")), N("1"))))
	add(Func("g", nil, Ret(F("", nil, Ret(N("4"))))), pr(Ca(Ca(I("g")))))
	// blocks and scoping
	add(Let("x", N("1")), Block(Let("x", N("2")), pr(I("x"))), pr(I("x")))
	add(Block(Block(e1()), e2()), Block())
	add(Let("x", N("1")), Block(Ex(As("=", I("x"), N("3")))), pr(I("x")))
	// literals and operators at statement level
	add(Let("x", Bi("+", S("'p'"), N("1"))), pr(I("x"), Bi("-", N("1"), U("-", N("2"))), Bi("+", N("1"), U("-", N("2")))))
	add(Let("n1", N("5")), pr(Bi("-", I("n1"), U("--", I("n1"))), Bi("+", I("n1"), U("++", I("n1"))), Bi("-", Po("--", I("n1")), N("1"))))
	add(pr(U("-", U("-", N("3"))), U("!", U("!", N("0"))), U("-", U("!", N("0"))), U("!", U("-", N("1")))))
	add(pr(Bi("&&", N("0"), e1().A), Bi("||", N("0"), N("2")), Bi("||", Bi("&&", N("1"), N("0")), N("3"))))
	add(pr(Bi("<", Bi("<", N("3"), N("2")), N("1")), Bi("==", Bi("==", N("1"), N("1")), N("1")), Bi("-", Bi("-", N("9"), N("3")), N("2")), Bi("-", N("9"), Bi("-", N("3"), N("2"))), Bi("/", Bi("/", N("8"), N("4")), N("2")), Bi("/", N("8"), Bi("/", N("4"), N("2"))), Bi("%", Bi("*", N("7"), N("3")), N("4")), Bi("*", N("7"), Bi("%", N("3"), N("4")))))
	add(pr(B_("true"), B_("false"), Nul(), Ar(), Ob(), Ar(N("1"), Ar(N("2"))), Ob(I("k"), Ob(I("j"), N("1")))))
	add(pr(Do(N("1"), "toFixed"), Do(S("'s'"), "length"), Ix(S("'st'"), N("1")), Do(Ar(N("1"), N("2")), "length"), Ca(Do(N("255"), "toString"), N("16"))))

	// literal content next to operators, and literals whose content looks like layout
	add(pr(Bi("+", S("'1'"), S("'+2'")), Bi("-", S("'7'"), S("'-2'")), U("-", S("'-5'")), Bi("+", S("\"a\""), T_("`+b`")), Bi("+", S("'a'"), S("'++'"))))
	add(Let("s", S("'x'")), Let("n2", N("5")), Ex(As("+=", I("s"), S("'+'"))), Ex(As("-=", I("n2"), S("'-1'"))), Ex(As("+=", I("s"), T_("`-`"))), pr(I("s"), I("n2")))
	add(Let("u", T_("`a\\`b`")), Let("v", T_("`p  \n  q  \n`")), pr(I("u"), I("v")))
	add(Let("u", T_("`http://x`")), Let("v", T_("`p  \n`")), pr(I("u"), I("v")), Let("w", S("\"// x\"")), pr(I("w")))
	add(Func("g", nil, Let("u", S("'\"'")), Ret(T_("`  \n\n z `"))), pr(Ca(I("g"))))

	add(Let("n3", N("0")), pr(Ca(Do(N("0"), "toFixed"), N("1")), Bi("==", I("n3"), Ca(Do(N("0"), "valueOf"))), Do(N("10"), "constructor"), U("-", Ca(Do(N("0"), "toFixed"), N("2")))))

	if level < 1 {
		return out
	}
	// ASI hazards: a statement that ends without a closing brace followed by a statement that starts
	// with ( [ - ++ -- ` or an object/function in parentheses
	firsts := []func() *Node{
		func() *Node { return e1() },
		func() *Node { return Let("x", I("a")) },
		func() *Node { return Let("x", nil) },
		func() *Node { return Ex(As("=", I("y"), I("b"))) },
		func() *Node { return Ex(I("a")) },
		func() *Node { return Ex(Po("++", I("n"))) },
		func() *Node { return Ex(N("1")) },
		func() *Node { return Ex(S("'s'")) },
		func() *Node { return If(T1(), Ex(I("a")), nil) },
		func() *Node { return If(F0(), e1(), Ex(I("a"))) },
		func() *Node { return For(LetExpr("i", N("0")), lt("i"), inc("i"), Ex(I("a"))) },
		func() *Node { return Ex(As("=", I("y"), F("", nil, Ret(N("1"))))) },
	}
	seconds := []func() *Node{
		func() *Node { return Ex(G(Ca(I("print"), N("2")))) },
		func() *Node { return Ex(Ca(Do(Ar(N("1"), N("2")), "forEach"), I("print"))) },
		func() *Node { return Ex(Ar(Ca(I("print"), N("2")))) },
		func() *Node { return Ex(U("-", Ca(I("print"), N("2")))) },
		func() *Node { return Ex(U("++", I("z"))) },
		func() *Node { return Ex(U("--", I("z"))) },
		func() *Node { return Ex(U("!", Ca(I("print"), N("2")))) },
		func() *Node { return Ex(T_("`t`")) },
		func() *Node { return Ex(Ca(F("", nil, e2()))) },
		func() *Node { return Ex(Do(Ob(I("k"), N("1")), "k")) },
		func() *Node { return Ex(Ca(G(F("", nil, e2())))) },
	}
	for _, f := range firsts {
		for _, s := range seconds {
			add(f(), s(), pr(I("z")))
			add(Block(f(), s()), e1())
			add(Func("g", nil, f(), s(), Ret(nil)), Ex(Ca(I("g"))))
		}
	}
	// return followed by the hazards
	for _, s := range seconds {
		add(Func("g", nil, Ret(I("a")), s()), pr(Ca(I("g"))))
		add(Func("g", nil, Ret(nil), s()), pr(Ca(I("g"))))
	}
	return out
}
