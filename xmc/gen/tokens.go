// Package gen holds the enumerated universes: token sequences, trees, layouts, corruptions.
package gen

import "strings"

// T is the token alphabet of U_tok, ordered simplest-first.
var T = strings.Fields("a b 1 's' `t` let function return if else while for true false null = += -= + - * / % == != < > <= >= && || ! ++ -- , ; : . ( ) { } [ ]")

// TClass is a reduced alphabet (one representative per precedence level / token role) for deeper n.
var TClass = strings.Fields("a b 1 's' let function return if else while for = += + * == < && || ! ++ , ; : . ( ) { } [ ]")

// EachSeq enumerates every sequence of exactly n indices into an alphabet of size k, in lexicographic
// order, calling f with a reused slice. f returns false to stop.
func EachSeq(k, n int, f func(idx []int) bool) {
	idx := make([]int, n)
	if n == 0 {
		f(idx)
		return
	}
	for {
		if !f(idx) {
			return
		}
		i := n - 1
		for i >= 0 {
			idx[i]++
			if idx[i] < k {
				break
			}
			idx[i] = 0
			i--
		}
		if i < 0 {
			return
		}
	}
}

// Join renders a token index sequence with a separator.
func Join(alpha []string, idx []int, sep string) string {
	var b strings.Builder
	for i, x := range idx {
		if i > 0 {
			b.WriteString(sep)
		}
		b.WriteString(alpha[x])
	}
	return b.String()
}

// ShrinkTokens: candidates simpler than token i are all tokens with a smaller index.
func Simpler(i int) []int {
	s := make([]int, i)
	for k := range s {
		s[k] = k
	}
	return s
}
