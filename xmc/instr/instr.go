// Package instr rewrites the xjs sources (go/ast) for the schedule explorer: a yield point at every
// function entry and before every statement that stores through a selector / index / pointer, and an
// access record + yield point before every statement that refers to a package-level variable. The
// result is a `go build -overlay` file; /repo itself is never touched. The overlay also supplies the
// virtual package github.com/xjslang/xjs/verifhook.
package instr

import (
	"bytes"
	"encoding/json"
	"fmt"
	"go/ast"
	"go/format"
	"go/parser"
	"go/token"
	"os"
	"path/filepath"
	"sort"
	"strconv"
	"strings"
)

const modPath = "github.com/xjslang/xjs"

type Stats struct {
	Packages    []string `json:"packages"`
	Funcs       int      `json:"functions_instrumented"`
	StoreSites  int      `json:"store_sites"`
	GlobalSites int      `json:"global_access_sites"`
	GlobalVars  []string `json:"package_level_variables"`
	GoStmts     int      `json:"go_statements"`
	SyncImports []string `json:"packages_importing_sync"`
}

const hookSrc = `package verifhook

// Yield is called at every scheduling point; Access additionally records an access to a package-level
// variable (kind 'r' read, 'w' write, 'u' unknown: method call on the variable).
var Yield func(string)
var Access func(string, byte)

func Y(s string) {
	if Yield != nil {
		Yield(s)
	}
}

func G(v string, k byte) {
	if Access != nil {
		Access(v, k)
	}
}

// Globals maps "pkg.var" to the address of every package-level variable of the module (filled by generated
// init functions): the explorer dumps them to see whether using the library changes package-level state.
var Globals = map[string]any{}
`

type pkgInfo struct {
	dir    string
	name   string // import path suffix, e.g. "parser"
	files  []string
	vars   map[string]bool
	goName string // package clause name
}

// fileScopeSpecs are the ValueSpecs of package-level var declarations (a local variable that shadows a
// package-level name resolves to a different spec).
var fileScopeSpecs = map[*ast.ValueSpec]bool{}

// Instrument writes the rewritten files and overlay.json into outDir.
func Instrument(repo, outDir string) (*Stats, string, error) {
	st := &Stats{}
	if err := os.MkdirAll(outDir, 0o755); err != nil {
		return nil, "", err
	}
	var pkgs []*pkgInfo
	var walk func(dir, rel string)
	walk = func(dir, rel string) {
		es, _ := os.ReadDir(dir)
		p := &pkgInfo{dir: dir, name: rel, vars: map[string]bool{}}
		for _, e := range es {
			n := e.Name()
			if e.IsDir() {
				if strings.HasPrefix(n, ".") || n == "testdata" || n == "test" || n == "vendor" {
					continue
				}
				sub := n
				if rel != "" {
					sub = rel + "/" + n
				}
				walk(filepath.Join(dir, n), sub)
				continue
			}
			if strings.HasSuffix(n, ".go") && !strings.HasSuffix(n, "_test.go") && rel != "" {
				p.files = append(p.files, filepath.Join(dir, n))
			}
		}
		if len(p.files) > 0 {
			pkgs = append(pkgs, p)
		}
	}
	walk(repo, "")
	sort.Slice(pkgs, func(i, j int) bool { return pkgs[i].name < pkgs[j].name })

	fset := token.NewFileSet()
	parsed := map[string]*ast.File{}
	byName := map[string]*pkgInfo{}
	for _, p := range pkgs {
		byName[p.name] = p
		st.Packages = append(st.Packages, p.name)
		for _, f := range p.files {
			af, err := parser.ParseFile(fset, f, nil, parser.ParseComments)
			if err != nil {
				return nil, "", fmt.Errorf("%s: %v", f, err)
			}
			if hasBuildConstraint(af) {
				continue
			}
			parsed[f] = af
			p.goName = af.Name.Name
			for _, d := range af.Decls {
				gd, ok := d.(*ast.GenDecl)
				if !ok || gd.Tok != token.VAR {
					continue
				}
				for _, sp := range gd.Specs {
					fileScopeSpecs[sp.(*ast.ValueSpec)] = true
					for _, n := range sp.(*ast.ValueSpec).Names {
						if n.Name != "_" {
							p.vars[n.Name] = true
							st.GlobalVars = append(st.GlobalVars, p.name+"."+n.Name)
						}
					}
				}
			}
			for _, im := range af.Imports {
				if ip, _ := strconv.Unquote(im.Path.Value); ip == "sync" || ip == "sync/atomic" {
					st.SyncImports = append(st.SyncImports, p.name)
				}
			}
		}
	}
	sort.Strings(st.GlobalVars)

	overlay := map[string]string{}
	hook := filepath.Join(outDir, "verifhook.go")
	if err := os.WriteFile(hook, []byte(hookSrc), 0o644); err != nil {
		return nil, "", err
	}
	overlay[filepath.Join(repo, "verifhook", "verifhook.go")] = hook

	for _, p := range pkgs {
		for _, f := range p.files {
			af := parsed[f]
			if af == nil {
				continue
			}
			// imported xjs packages by local name
			imports := map[string]*pkgInfo{}
			for _, im := range af.Imports {
				ip, _ := strconv.Unquote(im.Path.Value)
				if strings.HasPrefix(ip, modPath+"/") {
					q := byName[strings.TrimPrefix(ip, modPath+"/")]
					if q == nil {
						continue
					}
					local := filepath.Base(ip)
					if im.Name != nil {
						local = im.Name.Name
					}
					imports[local] = q
				}
			}
			r := &rewriter{pkg: p, imports: imports, st: st}
			for _, d := range af.Decls {
				fd, ok := d.(*ast.FuncDecl)
				if !ok || fd.Body == nil {
					continue
				}
				r.fn = p.name + "." + fd.Name.Name
				r.block(fd.Body)
				fd.Body.List = append([]ast.Stmt{callY(r.fn)}, fd.Body.List...)
				st.Funcs++
				r.changed = true
			}
			if !r.changed {
				continue
			}
			af.Decls = append([]ast.Decl{&ast.GenDecl{Tok: token.IMPORT, Specs: []ast.Spec{&ast.ImportSpec{Path: &ast.BasicLit{Kind: token.STRING, Value: strconv.Quote(modPath + "/verifhook")}}}}}, af.Decls...)
			var buf bytes.Buffer
			if err := format.Node(&buf, fset, af); err != nil {
				return nil, "", fmt.Errorf("%s: %v", f, err)
			}
			dst := filepath.Join(outDir, strings.ReplaceAll(p.name, "/", "_")+"__"+filepath.Base(f))
			if err := os.WriteFile(dst, buf.Bytes(), 0o644); err != nil {
				return nil, "", err
			}
			overlay[f] = dst
		}
	}
	// one generated file per package registers the addresses of its package-level variables
	for _, p := range pkgs {
		if len(p.vars) == 0 || p.goName == "" {
			continue
		}
		var names []string
		for v := range p.vars {
			names = append(names, v)
		}
		sort.Strings(names)
		var sb strings.Builder
		fmt.Fprintf(&sb, "package %s\n\nimport \"%s/verifhook\"\n\nfunc init() {\n", p.goName, modPath)
		for _, v := range names {
			fmt.Fprintf(&sb, "\tverifhook.Globals[%q] = &%s\n", p.name+"."+v, v)
		}
		sb.WriteString("}\n")
		dst := filepath.Join(outDir, strings.ReplaceAll(p.name, "/", "_")+"__zz_verifglobals.go")
		if err := os.WriteFile(dst, []byte(sb.String()), 0o644); err != nil {
			return nil, "", err
		}
		overlay[filepath.Join(p.dir, "zz_verifglobals.go")] = dst
	}
	b, _ := json.MarshalIndent(map[string]any{"Replace": overlay}, "", " ")
	ov := filepath.Join(outDir, "overlay.json")
	if err := os.WriteFile(ov, b, 0o644); err != nil {
		return nil, "", err
	}
	return st, ov, nil
}

func hasBuildConstraint(af *ast.File) bool {
	for _, cg := range af.Comments {
		if cg.Pos() > af.Package {
			break
		}
		for _, c := range cg.List {
			if strings.HasPrefix(c.Text, "//go:build") || strings.HasPrefix(c.Text, "// +build") {
				return true
			}
		}
	}
	return false
}

func callY(name string) ast.Stmt {
	return &ast.ExprStmt{X: &ast.CallExpr{Fun: &ast.SelectorExpr{X: ast.NewIdent("verifhook"), Sel: ast.NewIdent("Y")}, Args: []ast.Expr{&ast.BasicLit{Kind: token.STRING, Value: strconv.Quote(name)}}}}
}

func callG(v string, kind byte) ast.Stmt {
	return &ast.ExprStmt{X: &ast.CallExpr{Fun: &ast.SelectorExpr{X: ast.NewIdent("verifhook"), Sel: ast.NewIdent("G")}, Args: []ast.Expr{
		&ast.BasicLit{Kind: token.STRING, Value: strconv.Quote(v)}, &ast.BasicLit{Kind: token.CHAR, Value: "'" + string(kind) + "'"}}}}
}

type rewriter struct {
	pkg     *pkgInfo
	imports map[string]*pkgInfo
	st      *Stats
	fn      string
	changed bool
}

type access struct {
	v    string
	kind byte
}

// globalOf returns the qualified name if e denotes a package-level variable of the module.
func (r *rewriter) globalOf(e ast.Expr) string {
	switch x := e.(type) {
	case *ast.Ident:
		if x.Obj != nil {
			if vs, ok := x.Obj.Decl.(*ast.ValueSpec); ok && x.Obj.Kind == ast.Var && r.pkg.vars[x.Name] && isFileScope(vs, x) {
				return r.pkg.name + "." + x.Name
			}
			return ""
		}
		if r.pkg.vars[x.Name] {
			return r.pkg.name + "." + x.Name
		}
	case *ast.SelectorExpr:
		if id, ok := x.X.(*ast.Ident); ok && id.Obj == nil {
			if q := r.imports[id.Name]; q != nil && q.vars[x.Sel.Name] {
				return q.name + "." + x.Sel.Name
			}
		}
	}
	return ""
}

func isFileScope(vs *ast.ValueSpec, use *ast.Ident) bool { return fileScopeSpecs[vs] }

// base strips index / selector / star / paren wrappers: the variable a store finally goes through.
func base(e ast.Expr) ast.Expr {
	for {
		switch x := e.(type) {
		case *ast.IndexExpr:
			e = x.X
		case *ast.ParenExpr:
			e = x.X
		case *ast.StarExpr:
			e = x.X
		case *ast.SliceExpr:
			e = x.X
		default:
			return e
		}
	}
}

// refs collects accesses to package-level variables in the expressions / simple statement given.
func (r *rewriter) refs(n ast.Node, out *[]access) {
	if n == nil {
		return
	}
	writes := map[ast.Expr]bool{}
	unknown := map[ast.Expr]bool{}
	markW := func(e ast.Expr) {
		b := base(e)
		writes[b] = true
		if se, ok := b.(*ast.SelectorExpr); ok {
			// store through a field of a global struct: x.f = v
			if r.globalOf(se) == "" {
				writes[base(se.X)] = true
			}
		}
	}
	ast.Inspect(n, func(m ast.Node) bool {
		switch x := m.(type) {
		case *ast.FuncLit:
			return false // its body is instrumented as a block of its own
		case *ast.AssignStmt:
			if x.Tok != token.DEFINE {
				for _, l := range x.Lhs {
					markW(l)
				}
			}
		case *ast.IncDecStmt:
			markW(x.X)
		case *ast.UnaryExpr:
			if x.Op == token.AND {
				unknown[base(x.X)] = true
			}
		case *ast.CallExpr:
			if id, ok := x.Fun.(*ast.Ident); ok && id.Obj == nil && (id.Name == "delete" || id.Name == "clear" || id.Name == "copy") && len(x.Args) > 0 {
				markW(x.Args[0])
			}
			if se, ok := x.Fun.(*ast.SelectorExpr); ok {
				// method call on a global (or on a field of it): kind unknown
				if r.globalOf(se) == "" {
					unknown[base(se.X)] = true
					if s2, ok := base(se.X).(*ast.SelectorExpr); ok && r.globalOf(s2) == "" {
						unknown[base(s2.X)] = true
					}
				}
			}
		}
		return true
	})
	seen := map[string]byte{}
	var order []string
	ast.Inspect(n, func(m ast.Node) bool {
		if _, ok := m.(*ast.FuncLit); ok {
			return false
		}
		e, ok := m.(ast.Expr)
		if !ok {
			return true
		}
		g := r.globalOf(e)
		if g == "" {
			return true
		}
		k := byte('r')
		if unknown[e] {
			k = 'u'
		}
		if writes[e] {
			k = 'w'
		}
		if old, ok := seen[g]; !ok {
			order = append(order, g)
			seen[g] = k
		} else if rank(k) > rank(old) {
			seen[g] = k
		}
		_, isSel := e.(*ast.SelectorExpr)
		return !isSel
	})
	for _, g := range order {
		*out = append(*out, access{g, seen[g]})
	}
}

func rank(k byte) int {
	switch k {
	case 'w':
		return 2
	case 'u':
		return 1
	}
	return 0
}

func isStore(s ast.Stmt) bool {
	heap := func(e ast.Expr) bool {
		switch e.(type) {
		case *ast.SelectorExpr, *ast.IndexExpr, *ast.StarExpr:
			return true
		}
		return false
	}
	switch x := s.(type) {
	case *ast.AssignStmt:
		for _, l := range x.Lhs {
			if heap(l) {
				return true
			}
		}
	case *ast.IncDecStmt:
		return heap(x.X)
	}
	return false
}

// block instruments a statement list in place.
func (r *rewriter) block(b *ast.BlockStmt) {
	if b == nil {
		return
	}
	b.List = r.list(b.List)
}

func (r *rewriter) list(in []ast.Stmt) []ast.Stmt {
	var out []ast.Stmt
	for _, s := range in {
		var acc []access
		inner := s
		if ls, ok := s.(*ast.LabeledStmt); ok {
			inner = ls.Stmt
		}
		switch x := inner.(type) {
		case *ast.BlockStmt:
			r.block(x)
		case *ast.IfStmt:
			r.refs(x.Init, &acc)
			r.refs(x.Cond, &acc)
			r.ifChain(x)
		case *ast.ForStmt:
			r.refs(x.Init, &acc)
			r.refs(x.Cond, &acc)
			r.refs(x.Post, &acc)
			r.block(x.Body)
			// the condition / post statement run again on every iteration: yield at the top of the body
			var again []access
			r.refs(x.Cond, &again)
			r.refs(x.Post, &again)
			if len(again) > 0 {
				x.Body.List = append(r.accessCalls(again), x.Body.List...)
			}
		case *ast.RangeStmt:
			r.refs(x.X, &acc)
			r.block(x.Body)
		case *ast.SwitchStmt:
			r.refs(x.Init, &acc)
			r.refs(x.Tag, &acc)
			r.clauses(x.Body)
		case *ast.TypeSwitchStmt:
			r.refs(x.Init, &acc)
			r.refs(x.Assign, &acc)
			r.clauses(x.Body)
		case *ast.SelectStmt:
			r.clauses(x.Body)
		case *ast.GoStmt:
			r.st.GoStmts++
			r.refs(x, &acc)
			r.funcLits(x)
		default:
			r.refs(inner, &acc)
			r.funcLits(inner)
		}
		if len(acc) > 0 {
			out = append(out, r.accessCalls(acc)...)
		} else if isStore(inner) {
			out = append(out, callY(r.fn+"#store"))
			r.st.StoreSites++
			r.changed = true
		}
		out = append(out, s)
	}
	return out
}

func (r *rewriter) accessCalls(acc []access) []ast.Stmt {
	var out []ast.Stmt
	for _, a := range acc {
		out = append(out, callG(a.v, a.kind))
		r.st.GlobalSites++
		r.changed = true
	}
	return out
}

func (r *rewriter) ifChain(x *ast.IfStmt) {
	r.block(x.Body)
	switch e := x.Else.(type) {
	case *ast.BlockStmt:
		r.block(e)
	case *ast.IfStmt:
		// accesses in an else-if header are recorded at the top of its body and of its else
		var acc []access
		r.refs(e.Init, &acc)
		r.refs(e.Cond, &acc)
		r.ifChain(e)
		if len(acc) > 0 {
			e.Body.List = append(r.accessCalls(acc), e.Body.List...)
		}
	}
}

func (r *rewriter) clauses(b *ast.BlockStmt) {
	if b == nil {
		return
	}
	for _, c := range b.List {
		switch cc := c.(type) {
		case *ast.CaseClause:
			var acc []access
			for _, e := range cc.List {
				r.refs(e, &acc)
			}
			cc.Body = r.list(cc.Body)
			if len(acc) > 0 {
				cc.Body = append(r.accessCalls(acc), cc.Body...)
			}
		case *ast.CommClause:
			cc.Body = r.list(cc.Body)
		}
	}
}

// funcLits instruments the bodies of function literals inside a simple statement.
func (r *rewriter) funcLits(n ast.Node) {
	ast.Inspect(n, func(m ast.Node) bool {
		if fl, ok := m.(*ast.FuncLit); ok {
			r.block(fl.Body)
			fl.Body.List = append([]ast.Stmt{callY(r.fn + "#closure")}, fl.Body.List...)
			r.changed = true
			return false
		}
		return true
	})
}
