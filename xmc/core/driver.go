package core

import (
	"bytes"
	"encoding/json"
	"fmt"
	"os"
	"os/exec"
	"strconv"
	"sync"
	"time"
)

func envInt(name string, def int) int {
	if v, err := strconv.Atoi(os.Getenv(name)); err == nil {
		return v
	}
	return def
}

// RunCheck is the parent: shards the property over worker processes, merges, applies known findings,
// writes evidence, prints VIOLATION / KNOWN-FINDING lines. Returns the process exit code.
func RunCheck(p *PropSpec, tier string, seed int64) int {
	t0 := time.Now()
	W := envInt("XMC_WORKERS", 16)
	if p.SingleProc {
		W = 1
	}
	budget := p.QuickSec
	if tier == "thorough" {
		budget = p.ThorSec
	}
	if b := envInt("XMC_BUDGET", 0); b > 0 {
		budget = b
	}
	results := make([]Result, W)
	var wg sync.WaitGroup
	for i := 0; i < W; i++ {
		wg.Add(1)
		go func(i int) {
			defer wg.Done()
			results[i] = runShard(p, tier, seed, i, W, budget, false)
		}(i)
	}
	wg.Wait()
	m := Merge(results)

	known := map[string]Finding{}
	for _, f := range LoadFindings() {
		if f.Property == p.ID && f.Status == "known" {
			known[f.Signature] = f
		}
	}
	exit := 0
	nviol := 0
	for i := range m.Violations {
		v := &m.Violations[i]
		if f, ok := known[v.Sig]; ok {
			fmt.Printf("KNOWN-FINDING: property=%s %s (%s)\n", p.ID, OneLine(v.Sig), OneLine(f.What))
			continue
		}
		nviol++
		exit = 1
		if nviol > 25 {
			continue // listed in the summary count only
		}
		path := WriteReplay(v)
		fmt.Printf("VIOLATION property=%s replay=%s\n", p.ID, path)
		fmt.Printf("  kind=%s config=%s case=%s\n  %s\n", v.Kind, v.Config, OneLine(Short(v.Case, 300)), OneLine(Short(v.Detail, 600)))
		exit = 1
	}
	if extra := m.MoreViol + int64(max(0, nviol-25)); extra > 0 {
		fmt.Printf("  (+%d further violating cases not listed individually)\n", extra)
	}

	cov := map[string]any{}
	for k, v := range m.Counters {
		cov[k] = v
	}
	for k, v := range m.Max {
		cov[k] = v
	}
	for k, v := range m.Notes {
		cov["note:"+k] = v
	}
	evals := m.Counters[p.Evals]
	nontriv := m.Counters[p.Nontriv]
	cov["evaluations"] = evals
	cov["distinct_nontrivial"] = nontriv
	cov["rule"] = p.Rule
	cov["samples"] = m.Samples
	cov["exhaustive"] = m.Exhaustive
	cov["caps_hit"] = m.Caps
	cov["workers"] = W
	if p.Level == "model_checking" {
		cov["states"] = m.Counters[p.States]
		cov["transitions"] = m.Counters[p.Trans]
		cov["traces_validated_against_impl"] = evals
	}
	ev := &Evidence{PropertyID: p.ID, Tier: tier, Seed: seed, Level: p.Level, Coverage: cov,
		Assumptions: p.Assume, WallS: time.Since(t0).Seconds(), Violations: nviol}
	if err := WriteEvidence(ev); err != nil {
		fmt.Fprintln(os.Stderr, "evidence:", err)
		return 2
	}
	fmt.Printf("%s %s: evaluations=%d nontrivial=%d violations=%d known=%d exhaustive=%v caps=%v wall=%.1fs\n",
		p.ID, tier, evals, nontriv, nviol, len(m.Violations)-nviol, m.Exhaustive, m.Caps, time.Since(t0).Seconds())
	if evals == 0 && exit == 0 {
		fmt.Fprintln(os.Stderr, "no evaluations performed: harness failure")
		return 2
	}
	return exit
}

func runShard(p *PropSpec, tier string, seed int64, shard, W, budget int, trace bool) Result {
	self, _ := os.Executable()
	cmd := exec.Command(self, "worker", p.ID, tier, strconv.FormatInt(seed, 10), strconv.Itoa(shard), strconv.Itoa(W), strconv.Itoa(budget))
	cmd.Env = append(os.Environ(), "GOMAXPROCS=2", "GOGC=200")
	tracePath := ""
	if trace {
		os.MkdirAll(VerifDir+"/.work", 0o755)
		tracePath = fmt.Sprintf("%s/.work/trace.%s.%d", VerifDir, p.ID, shard)
		cmd.Env = append(cmd.Env, "XMC_TRACE="+tracePath)
		defer os.Remove(tracePath)
	}
	var out, errb bytes.Buffer
	cmd.Stdout = &out
	cmd.Stderr = &errb
	done := make(chan error, 1)
	if err := cmd.Start(); err != nil {
		return crashResult(p, shard, "cannot start worker: "+err.Error(), "")
	}
	go func() { done <- cmd.Wait() }()
	var err error
	select {
	case err = <-done:
	case <-time.After(time.Duration(budget)*time.Second + 90*time.Second):
		cmd.Process.Kill()
		<-done
		// the worker overran its time budget (a slow batch between two deadline checks, a loaded machine):
		// what it explored is lost, nothing is concluded from it — a cap, never an alarm. Real hangs of the
		// code under test are reported by the worker's own watchdog (no progress for 90 s) long before.
		return Result{Counters: map[string]int64{}, Exhaustive: false, Caps: []string{fmt.Sprintf("worker of shard %d overran its budget and was stopped", shard)}}
	}
	var r Result
	line := lastLine(out.Bytes())
	if jerr := json.Unmarshal(line, &r); jerr == nil && r.Counters != nil {
		return r
	}
	// crashed without a result (fatal runtime error: stack overflow, out of memory, os.Exit in code under test)
	why := fmt.Sprintf("worker died: %v; stderr tail: %s", err, tail(errb.String(), 1500))
	if !trace {
		return runShard(p, tier, seed, shard, W, budget, true)
	}
	return crashResult(p, shard, why, ReadTrace(tracePath))
}

func crashResult(p *PropSpec, shard int, why, cur string) Result {
	v := Violation{Property: p.ID, Kind: "worker-crash", Case: cur, Detail: fmt.Sprintf("shard %d: %s", shard, why)}
	v.Finish()
	return Result{Counters: map[string]int64{}, Violations: []Violation{v}, Exhaustive: false, Caps: []string{"worker-crash"}}
}

func lastLine(b []byte) []byte {
	b = bytes.TrimRight(b, "\n")
	if i := bytes.LastIndexByte(b, '\n'); i >= 0 {
		return b[i+1:]
	}
	return b
}

func tail(s string, n int) string {
	if len(s) > n {
		return s[len(s)-n:]
	}
	return s
}
