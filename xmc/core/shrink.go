package core

// ShrinkSeq minimises a failing sequence: delete elements, then replace elements by simpler ones,
// to a fixed point, while fails() stays true. Deterministic.
func ShrinkSeq[T any](seq []T, simpler func(T) []T, fails func([]T) bool) []T {
	cur := append([]T{}, seq...)
	budget := 4000
	// cheap first: a single element or a pair that fails on its own is already (nearly) minimal
	if len(cur) > 1 && len(cur) <= 64 {
	small:
		for i := range cur {
			if fails([]T{cur[i]}) {
				cur = []T{cur[i]}
				break small
			}
		}
		if len(cur) > 2 && len(cur) <= 24 {
		pairs:
			for i := range cur {
				for j := i + 1; j < len(cur); j++ {
					if fails([]T{cur[i], cur[j]}) {
						cur = []T{cur[i], cur[j]}
						break pairs
					}
				}
			}
		}
	}
	for changed := true; changed && budget > 0; {
		changed = false
		// delete chunks, large to small
		for sz := len(cur) - 1; sz >= 1; sz = nextSize(sz, len(cur)) {
			for i := 0; i+sz <= len(cur) && budget > 0; {
				cand := append(append([]T{}, cur[:i]...), cur[i+sz:]...)
				budget--
				if len(cand) > 0 && fails(cand) {
					cur = cand
					changed = true
				} else {
					i++
				}
			}
		}
		if simpler != nil {
			for i := 0; i < len(cur) && budget > 0; i++ {
				for _, s := range simpler(cur[i]) {
					cand := append([]T{}, cur...)
					cand[i] = s
					budget--
					if fails(cand) {
						cur = cand
						changed = true
						break
					}
					if budget <= 0 {
						break
					}
				}
			}
		}
	}
	return cur
}

func nextSize(sz, n int) int {
	if n <= 16 {
		return sz - 1
	}
	return sz / 2
}
