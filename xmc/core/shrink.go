package core

// ShrinkSeq minimises a failing sequence: delete elements, then replace elements by simpler ones,
// to a fixed point, while fails() stays true. Deterministic.
func ShrinkSeq[T any](seq []T, simpler func(T) []T, fails func([]T) bool) []T {
	cur := append([]T{}, seq...)
	budget := 4000
	for changed := true; changed && budget > 0; {
		changed = false
		// delete chunks, large to small
		for sz := len(cur) / 2; sz >= 1; sz /= 2 {
			for i := 0; i+sz <= len(cur) && budget > 0; {
				cand := append(append([]T{}, cur[:i]...), cur[i+sz:]...)
				budget--
				if len(cand) > 0 && fails(cand) {
					cur = cand
					changed = true
				} else {
					i++
				}
			}
		}
		if simpler != nil {
			for i := 0; i < len(cur) && budget > 0; i++ {
				for _, s := range simpler(cur[i]) {
					cand := append([]T{}, cur...)
					cand[i] = s
					budget--
					if fails(cand) {
						cur = cand
						changed = true
						break
					}
					if budget <= 0 {
						break
					}
				}
			}
		}
	}
	return cur
}
