// Package core is the shared explorer runtime: sharded worker processes, counters, samples,
// violations with signatures, known findings, evidence files.
package core

import (
	"crypto/sha1"
	"encoding/hex"
	"encoding/json"
	"fmt"
	"os"
	"path/filepath"
	"runtime"
	"runtime/pprof"
	"sort"
	"strings"
	"sync/atomic"
	"time"
)

// VerifDir is where evidence, replays and known_findings.json live (check.sh exports XMC_VERIF).
var VerifDir = func() string {
	if d := os.Getenv("XMC_VERIF"); d != "" {
		return d
	}
	return "/verif"
}()

// Violation is one case on which the implementation disagreed with the reference model.
type Violation struct {
	Property string          `json:"property"`
	Kind     string          `json:"kind"`   // failure kind (stable identifier)
	Case     string          `json:"case"`   // canonical (shrunk) human-readable case
	Config   string          `json:"config"` // configuration class
	Detail   string          `json:"detail"` // expected vs observed
	Sig      string          `json:"signature"`
	Payload  json.RawMessage `json:"payload,omitempty"` // what `xmc replay` needs
	Size     int             `json:"size"`
}

func (v *Violation) Finish() {
	if v.Sig == "" {
		v.Sig = v.Kind + "|" + v.Config + "|" + v.Case
	}
	if v.Size == 0 {
		v.Size = len(v.Case)
	}
}

// Result is what one worker (one shard) reports.
type Result struct {
	Counters   map[string]int64  `json:"counters"`
	Max        map[string]int64  `json:"max"`
	Samples    []any             `json:"samples"`
	Violations []Violation       `json:"violations"`
	MoreViol   int64             `json:"more_violations"`
	Notes      map[string]string `json:"notes"`
	Exhaustive bool              `json:"exhaustive"`
	Caps       []string          `json:"caps"`
}

// Ctx is handed to a property's Run function inside a worker.
type Ctx struct {
	Prop      string
	Tier      string
	Seed      int64
	Shard     int
	NShards   int
	Deadline  time.Time
	res       Result
	distinct  map[string]map[uint64]struct{}
	sigs      map[string]bool
	cur       atomic.Value // string: current case, for the watchdog
	curN      atomic.Int64
	maxViol   int
	sampleCnt int64
	idx       int64
	ticks     int64
	shrinks   map[string]int
	expired   bool
	firstCur  []string
}

const maxViolPerWorker = 40

func NewCtx(prop, tier string, seed int64, shard, n int, deadline time.Time) *Ctx {
	c := &Ctx{Prop: prop, Tier: tier, Seed: seed, Shard: shard, NShards: n, Deadline: deadline}
	c.res.Counters = map[string]int64{}
	c.res.Max = map[string]int64{}
	c.res.Notes = map[string]string{}
	c.res.Exhaustive = true
	c.distinct = map[string]map[uint64]struct{}{}
	c.sigs = map[string]bool{}
	c.maxViol = maxViolPerWorker
	return c
}

// Violations returns what has been recorded so far (used by replays that re-run a small family).
func (c *Ctx) Violations() []Violation { return c.res.Violations }

func (c *Ctx) Thorough() bool { return c.Tier == "thorough" }

// Mine tells whether the case with running index i belongs to this shard. Every universe is
// enumerated identically in all workers; cheap index arithmetic decides ownership.
func (c *Ctx) Mine(i int64) bool { return int(i%int64(c.NShards)) == c.Shard }

// Next returns true if the next enumerated case belongs to this shard (auto-incrementing index).
func (c *Ctx) Next() bool {
	i := c.idx
	c.idx++
	return c.Mine(i)
}

// Count0 is the running case index (all shards see the same numbering).
func (c *Ctx) Count0() int64 { return c.idx }

func (c *Ctx) Count(name string, n int64) { c.res.Counters[name] += n }
func (c *Ctx) Inc(name string)            { c.res.Counters[name]++ }
func (c *Ctx) SetMax(name string, v int64) {
	if v > c.res.Max[name] {
		c.res.Max[name] = v
	}
}
func (c *Ctx) Note(k, v string) { c.res.Notes[k] = v }

func hash64(s string) uint64 {
	// FNV-1a
	var h uint64 = 14695981039346656037
	for i := 0; i < len(s); i++ {
		h ^= uint64(s[i])
		h *= 1099511628211
	}
	return h
}

// Distinct records key in the named set (per worker); the set sizes are reported as counters
// "distinct:<set>" (summed over shards: exact when shards own disjoint keys, else an upper bound;
// the per-shard maximum is reported too as a lower bound).
func (c *Ctx) Distinct(set, key string) bool {
	m := c.distinct[set]
	if m == nil {
		m = map[uint64]struct{}{}
		c.distinct[set] = m
	}
	h := hash64(key)
	if _, ok := m[h]; ok {
		return false
	}
	if len(m) < 4_000_000 {
		m[h] = struct{}{}
	}
	return true
}

// Sample keeps a few concrete cases for the evidence file (rotated by seed).
func (c *Ctx) Sample(s any) {
	c.sampleCnt++
	if len(c.res.Samples) < 6 {
		c.res.Samples = append(c.res.Samples, s)
		return
	}
	// deterministic reservoir-ish rotation
	k := (c.sampleCnt*2654435761 + c.Seed) % 5003
	if k < 6 {
		c.res.Samples[k] = s
	}
}

// Cur publishes the case being executed (for hang/crash attribution).
func (c *Ctx) Cur(s string) {
	c.cur.Store(s)
	if n := c.curN.Add(1); n == 1 || n == 1000 || n == 50000 {
		c.firstCur = append(c.firstCur, s) // fallback samples: cases that were actually executed
	}
	if traceFile != nil {
		traceFile.WriteAt([]byte(fmt.Sprintf("%08d", len(s))+s), 0)
	}
}

var traceFile = func() *os.File {
	if p := os.Getenv("XMC_TRACE"); p != "" {
		f, _ := os.Create(p)
		return f
	}
	return nil
}()

// ReadTrace returns the last case published by a traced worker.
func ReadTrace(path string) string {
	b, err := os.ReadFile(path)
	if err != nil || len(b) < 8 {
		return ""
	}
	n := 0
	fmt.Sscanf(string(b[:8]), "%d", &n)
	if 8+n > len(b) {
		n = len(b) - 8
	}
	return string(b[8 : 8+n])
}

// KeepAlive refreshes the worker's heartbeat every few seconds until the returned function is called: for
// single long steps that are healthy by construction (sub-process with its own deadline, compiler run).
func (c *Ctx) KeepAlive(label string) (stop func()) {
	done := make(chan struct{})
	go func() {
		for {
			select {
			case <-done:
				return
			case <-time.After(5 * time.Second):
				c.Cur(label + " (running)")
			}
		}
	}()
	return func() { close(done) }
}

// Tick is called once per executed case; it checks the deadline every 512 calls.
func (c *Ctx) Tick() bool {
	c.ticks++
	if c.ticks&63 == 0 {
		return c.Expired()
	}
	return !c.res.Exhaustive && c.expired
}

func (c *Ctx) Expired() bool {
	if time.Now().After(c.Deadline) {
		if !c.expired {
			c.expired = true
			c.res.Exhaustive = false
			c.res.Caps = append(c.res.Caps, "deadline")
		}
		return true
	}
	return false
}

func (c *Ctx) Cap(why string) {
	c.res.Exhaustive = false
	c.res.Caps = append(c.res.Caps, why)
}

func (c *Ctx) Violate(v Violation) {
	v.Property = c.Prop
	v.Finish()
	if c.sigs[v.Sig] {
		c.res.Counters["violations_dup_signature"]++
		return
	}
	if len(c.res.Violations) >= c.maxViol {
		c.res.MoreViol++
		return
	}
	c.sigs[v.Sig] = true
	c.res.Violations = append(c.res.Violations, v)
}

// ShrinkOK rations shrinking (which costs dozens of executions): always for the first 25 violations of
// a failure kind, and up to 400 per worker; beyond that a violating case is only counted.
func (c *Ctx) ShrinkOK(kind string) bool {
	if c.Saturated() {
		c.res.MoreViol++
		return false
	}
	if c.shrinks == nil {
		c.shrinks = map[string]int{}
	}
	c.shrinks[kind]++
	c.shrinks[""]++
	if c.shrinks[kind] <= 25 || c.shrinks[""] <= 400 {
		return true
	}
	c.res.MoreViol++
	return false
}

// SeenSig lets a property skip shrinking when it cannot report more anyway.
func (c *Ctx) Saturated() bool { return len(c.res.Violations) >= c.maxViol }

func (c *Ctx) finish() Result {
	if len(c.res.Samples) == 0 {
		for _, s := range c.firstCur {
			c.res.Samples = append(c.res.Samples, s)
		}
	}
	for name, m := range c.distinct {
		c.res.Counters["distinct:"+name] = int64(len(m))
		c.SetMax("distinct_max_shard:"+name, int64(len(m)))
	}
	return c.res
}

// PropSpec describes one property's check.
type PropSpec struct {
	ID         string
	Level      string // evidence level
	Rule       string
	Assume     []string
	QuickSec   int // time budget
	ThorSec    int
	Run        func(c *Ctx)
	Replay     func(payload json.RawMessage) (string, []Violation)
	Nontriv    string // counter name used for distinct_nontrivial
	Evals      string // counter name for evaluations
	States     string // counter for states (model_checking)
	Trans      string // counter for transitions
	SingleProc bool   // run in a single worker (property drives its own parallelism)
}

var Registry = map[string]*PropSpec{}

func Register(p *PropSpec) { Registry[p.ID] = p }

// RunWorker executes one shard in this process and prints the Result as JSON on stdout.
func RunWorker(p *PropSpec, tier string, seed int64, shard, n int, budget time.Duration) {
	c := NewCtx(p.ID, tier, seed, shard, n, time.Now().Add(budget))
	if pf := os.Getenv("XMC_PROF"); pf != "" {
		f, _ := os.Create(pf)
		pprof.StartCPUProfile(f)
		defer pprof.StopCPUProfile()
	}
	done := make(chan struct{})
	go watchdog(c, done)
	func() {
		defer func() {
			if r := recover(); r != nil {
				buf := make([]byte, 8192)
				buf = buf[:runtime.Stack(buf, false)]
				cur, _ := c.cur.Load().(string)
				c.Violate(Violation{Kind: "harness-panic", Case: cur, Detail: fmt.Sprintf("%v\n%s", r, buf)})
			}
		}()
		p.Run(c)
	}()
	close(done)
	out, _ := json.Marshal(c.finish())
	os.Stdout.Write(out)
	os.Stdout.Write([]byte("\n"))
}

// beats counts calls into the code under test (or the reference) that have returned; together with the case
// counter it is the watchdog's notion of progress, so that one large case made of many calls is not a hang.
var beats atomic.Int64

// Beat records that a call into the code under test or into a reference has returned.
func Beat() { beats.Add(1) }

func watchdog(c *Ctx, done chan struct{}) {
	last := int64(-1)
	stuck := 0
	t := time.NewTicker(2 * time.Second)
	defer t.Stop()
	for {
		select {
		case <-done:
			return
		case <-t.C:
			n := c.curN.Load() + beats.Load()
			if n == last && c.curN.Load() > 0 {
				stuck++
			} else {
				stuck = 0
			}
			last = n
			var ms runtime.MemStats
			runtime.ReadMemStats(&ms)
			if stuck >= 45 || ms.HeapAlloc > 6<<30 {
				cur, _ := c.cur.Load().(string)
				why := "hang"
				if ms.HeapAlloc > 6<<30 {
					why = "memory-blowup"
				}
				fmt.Fprintf(os.Stderr, "WATCHDOG %s\n", why)
				r := Result{Counters: map[string]int64{}, Exhaustive: false, Caps: []string{"watchdog:" + why}}
				v := Violation{Property: c.Prop, Kind: why, Case: cur, Detail: "worker watchdog: no call into the code under test returned for 90 s while this case was running, or heap > 6GiB"}
				v.Finish()
				r.Violations = []Violation{v}
				out, _ := json.Marshal(r)
				os.Stdout.Write(out)
				os.Stdout.Write([]byte("\n"))
				os.Exit(3)
			}
		}
	}
}

// ---------- known findings

type Finding struct {
	Property  string `json:"property"`
	Status    string `json:"status"` // "known" | "fixed"
	Signature string `json:"signature,omitempty"`
	Commit    string `json:"commit,omitempty"`
	What      string `json:"what"`
}

func LoadFindings() []Finding {
	b, err := os.ReadFile(filepath.Join(VerifDir, "known_findings.json"))
	if err != nil {
		return nil
	}
	var f struct {
		Findings []Finding `json:"findings"`
	}
	if err := json.Unmarshal(b, &f); err != nil {
		fmt.Fprintln(os.Stderr, "known_findings.json unreadable:", err)
		os.Exit(2)
	}
	return f.Findings
}

// ---------- evidence

type Evidence struct {
	PropertyID  string         `json:"property_id"`
	Tier        string         `json:"tier"`
	Seed        int64          `json:"seed"`
	Level       string         `json:"level"`
	Coverage    map[string]any `json:"coverage"`
	Assumptions []string       `json:"assumptions"`
	WallS       float64        `json:"wall_s"`
	Violations  int            `json:"violations"`
}

func WriteEvidence(e *Evidence) error {
	dir := filepath.Join(VerifDir, "evidence")
	os.MkdirAll(dir, 0o755)
	b, err := json.MarshalIndent(e, "", " ")
	if err != nil {
		return err
	}
	return os.WriteFile(filepath.Join(dir, e.PropertyID+".json"), append(b, '\n'), 0o644)
}

func WriteReplay(v *Violation) string {
	h := sha1.Sum([]byte(v.Sig))
	dir := filepath.Join(VerifDir, "replays", v.Property)
	os.MkdirAll(dir, 0o755)
	path := filepath.Join(dir, hex.EncodeToString(h[:6])+".json")
	b, _ := json.MarshalIndent(v, "", " ")
	os.WriteFile(path, append(b, '\n'), 0o644)
	return path
}

// Merge combines shard results.
func Merge(rs []Result) Result {
	m := Result{Counters: map[string]int64{}, Max: map[string]int64{}, Notes: map[string]string{}, Exhaustive: true}
	seen := map[string]bool{}
	caps := map[string]bool{}
	for _, r := range rs {
		for k, v := range r.Counters {
			m.Counters[k] += v
		}
		for k, v := range r.Max {
			if v > m.Max[k] {
				m.Max[k] = v
			}
		}
		for k, v := range r.Notes {
			m.Notes[k] = v
		}
		if !r.Exhaustive {
			m.Exhaustive = false
		}
		for _, c := range r.Caps {
			caps[c] = true
		}
		m.MoreViol += r.MoreViol
		for _, v := range r.Violations {
			if !seen[v.Sig] {
				seen[v.Sig] = true
				m.Violations = append(m.Violations, v)
			}
		}
	}
	// samples: round-robin over shards so the file shows variety
	for i := 0; len(m.Samples) < 8; i++ {
		any := false
		for _, r := range rs {
			if i < len(r.Samples) {
				any = true
				if len(m.Samples) < 8 {
					m.Samples = append(m.Samples, r.Samples[i])
				}
			}
		}
		if !any {
			break
		}
	}
	for c := range caps {
		m.Caps = append(m.Caps, c)
	}
	sort.Strings(m.Caps)
	sort.SliceStable(m.Violations, func(i, j int) bool {
		a, b := m.Violations[i], m.Violations[j]
		if a.Size != b.Size {
			return a.Size < b.Size
		}
		return a.Sig < b.Sig
	})
	return m
}

func Short(s string, n int) string {
	if len(s) <= n {
		return s
	}
	return s[:n] + "…"
}

func OneLine(s string) string {
	s = strings.ReplaceAll(s, "\n", "\\n")
	s = strings.ReplaceAll(s, "\r", "\\r")
	return s
}
