package ref

import (
	"fmt"
	"strings"
)

// R-tok: small independent tokenizer of the xjs subset for WELL-FORMED text (maximal munch, `//`
// comments). It is the reference for token boundaries / kinds / positions and for comment placement.

type TKind int

const (
	TIdent TKind = iota
	TKeyword
	TInt
	TFloat
	TString
	TTemplate
	TPunct
	TEOF
)

func (k TKind) String() string {
	return [...]string{"ident", "keyword", "int", "float", "string", "template", "punct", "eof"}[k]
}

type RComment struct {
	Text    string // without the leading //
	Off     int
	OwnLine bool // only white space between the previous line break (or start) and the comment
}

type RTok struct {
	Kind       TKind
	Text       string // exact source slice
	Off, End   int    // [Off, End)
	Line, Col  int    // 0-based, LF-delimited lines, byte columns
	NL         bool   // a line feed occurs between the previous token and this one
	CRonly     bool   // the gap contains CR but no LF (don't-care for NL)
	Comments   []RComment
	BlankLines int // number of LF in the gap
}

var Keywords = map[string]bool{"function": true, "let": true, "if": true, "else": true, "while": true, "for": true, "return": true, "true": true, "false": true, "null": true}

var puncts = []string{"==", "!=", "<=", ">=", "&&", "||", "++", "--", "+=", "-=", "=", "+", "-", "*", "/", "%", "<", ">", "!", ",", ";", ":", ".", "(", ")", "{", "}", "[", "]"}

func isLetter(c byte) bool {
	return c >= 'a' && c <= 'z' || c >= 'A' && c <= 'Z' || c == '_' || c == '$'
}
func isDigit(c byte) bool { return c >= '0' && c <= '9' }
func isHex(c byte) bool {
	return isDigit(c) || c >= 'a' && c <= 'f' || c >= 'A' && c <= 'F'
}

// Tokenize returns the tokens of src followed by one TEOF token (which carries trailing comments).
func Tokenize(src string) ([]RTok, error) {
	var out []RTok
	i, line, lineStart := 0, 0, 0
	n := len(src)
	for {
		t := RTok{}
		// gap
		lineHasToken := len(out) > 0 // something precedes the gap on the current line
		for i < n {
			c := src[i]
			if c == ' ' || c == '\t' || c == '\r' {
				if c == '\r' {
					t.CRonly = true
				}
				i++
			} else if c == '\n' {
				t.NL = true
				t.BlankLines++
				line++
				i++
				lineStart = i
				lineHasToken = false
			} else if c == '/' && i+1 < n && src[i+1] == '/' {
				j := i + 2
				for j < n && src[j] != '\n' {
					j++
				}
				t.Comments = append(t.Comments, RComment{Text: src[i+2 : j], Off: i, OwnLine: !lineHasToken})
				lineHasToken = true // a second comment on the same line cannot happen, but be explicit
				i = j
			} else {
				break
			}
		}
		if t.NL {
			t.CRonly = false
		}
		t.Off, t.Line, t.Col = i, line, i-lineStart
		if i >= n {
			t.Kind, t.End = TEOF, i
			out = append(out, t)
			return out, nil
		}
		c := src[i]
		switch {
		case isLetter(c):
			j := i
			for j < n && (isLetter(src[j]) || isDigit(src[j])) {
				j++
			}
			t.Text = src[i:j]
			t.Kind = TIdent
			if Keywords[t.Text] {
				t.Kind = TKeyword
			}
			i = j
		case isDigit(c):
			j, kind, err := scanNumber(src, i)
			if err != nil {
				return nil, err
			}
			t.Text, t.Kind = src[i:j], kind
			i = j
		case c == '"' || c == '\'':
			j := i + 1
			for {
				if j >= n {
					return nil, fmt.Errorf("unterminated string at %d", i)
				}
				if src[j] == '\\' {
					if j+1 < n && src[j+1] == '\r' && j+2 < n && src[j+2] == '\n' {
						j++
					}
					if j+1 < n && src[j+1] == '\n' {
						line++
						lineStart = j + 2
					}
					j += 2
					continue
				}
				if src[j] == '\n' || src[j] == '\r' {
					return nil, fmt.Errorf("line break in string at %d", j)
				}
				if src[j] == c {
					break
				}
				j++
			}
			t.Text, t.Kind = src[i:j+1], TString
			i = j + 1
		case c == '`':
			j := i + 1
			for {
				if j >= n {
					return nil, fmt.Errorf("unterminated template at %d", i)
				}
				if src[j] == '\\' {
					if j+1 < n && src[j+1] == '\n' {
						line++
						lineStart = j + 2
					}
					j += 2
					continue
				}
				if src[j] == '\n' {
					line++
					lineStart = j + 1
				}
				if src[j] == '`' {
					break
				}
				j++
			}
			t.Text, t.Kind = src[i:j+1], TTemplate
			i = j + 1
		default:
			found := false
			for _, p := range puncts {
				if strings.HasPrefix(src[i:], p) {
					t.Text, t.Kind = p, TPunct
					i += len(p)
					found = true
					break
				}
			}
			if !found {
				return nil, fmt.Errorf("unexpected byte %q at %d", c, i)
			}
		}
		t.End = i
		out = append(out, t)
	}
}

func scanNumber(src string, i int) (int, TKind, error) {
	n := len(src)
	j := i
	if src[j] == '0' && j+1 < n {
		var ok func(byte) bool
		switch src[j+1] {
		case 'x', 'X':
			ok = isHex
		case 'b', 'B':
			ok = func(c byte) bool { return c == '0' || c == '1' }
		case 'o', 'O':
			ok = func(c byte) bool { return c >= '0' && c <= '7' }
		}
		if ok != nil {
			j += 2
			k := j
			for j < n && ok(src[j]) {
				j++
			}
			if j == k {
				return 0, 0, fmt.Errorf("malformed number at %d", i)
			}
			return j, TInt, nil
		}
	}
	kind := TInt
	for j < n && isDigit(src[j]) {
		j++
	}
	if j+1 < n && src[j] == '.' && isDigit(src[j+1]) {
		kind = TFloat
		j++
		for j < n && isDigit(src[j]) {
			j++
		}
	}
	if j < n && (src[j] == 'e' || src[j] == 'E') {
		k := j + 1
		if k < n && (src[k] == '+' || src[k] == '-') {
			k++
		}
		if k < n && isDigit(src[k]) {
			kind = TFloat
			for k < n && isDigit(src[k]) {
				k++
			}
			j = k
		} else {
			return 0, 0, fmt.Errorf("malformed exponent at %d", i)
		}
	}
	return j, kind, nil
}

// OffsetOf converts a (line, col) position (0-based, LF lines, byte columns) to a byte offset; -1 if the
// line does not exist or the column lies beyond the end of the line + 1.
func OffsetOf(src string, line, col int) int {
	off := 0
	for l := 0; l < line; l++ {
		k := strings.IndexByte(src[off:], '\n')
		if k < 0 {
			return -1
		}
		off += k + 1
	}
	if col < 0 {
		return -1
	}
	end := strings.IndexByte(src[off:], '\n')
	if end < 0 {
		end = len(src) - off
	}
	if col > end {
		return -1
	}
	return off + col
}
