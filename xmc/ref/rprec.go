package ref

import (
	"fmt"
	"strings"
)

// R-prec: textbook precedence climbing over a table of binding levels, for expression statements made
// of identifiers, numbers, the built-in operators and plugin operators. It is the reference for how a
// registered operator must group: an infix operator of level L like a left-associative built-in of
// level L, a prefix operator like the built-in unary operators (operand at level 9), a postfix
// operator like a call-level suffix (level 11). Output: the same S-expression format as XStmts.

const (
	PLowest = 1
	PAssign = 2
	PUnary  = 9
	PPost   = 10
	PCall   = 11
	PMember = 12
)

// PrecTable is the operator table of one parser configuration (token spelling -> role).
type PrecTable struct {
	Infix   map[string]int  // custom or built-in binary operators: level
	Prefix  map[string]bool // custom prefix operators (built-ins - ! ++ -- are implicit)
	Postfix map[string]bool // custom postfix operators
	Dead    map[string]bool // tokens that are not identifiers but have no role (registered token type only)
}

var builtinBinary = map[string]int{"||": 3, "&&": 4, "==": 5, "!=": 5, "<": 6, ">": 6, "<=": 6, ">=": 6, "+": 7, "-": 7, "*": 8, "/": 8, "%": 8}

func NewPrecTable() *PrecTable {
	t := &PrecTable{Infix: map[string]int{}, Prefix: map[string]bool{}, Postfix: map[string]bool{}, Dead: map[string]bool{}}
	for k, v := range builtinBinary {
		t.Infix[k] = v
	}
	return t
}

func (t *PrecTable) Clone() *PrecTable {
	n := &PrecTable{Infix: map[string]int{}, Prefix: map[string]bool{}, Postfix: map[string]bool{}, Dead: map[string]bool{}}
	for k, v := range t.Infix {
		n.Infix[k] = v
	}
	for k := range t.Prefix {
		n.Prefix[k] = true
	}
	for k := range t.Postfix {
		n.Postfix[k] = true
	}
	for k := range t.Dead {
		n.Dead[k] = true
	}
	return n
}

type precParser struct {
	toks    []string
	i       int
	t       *PrecTable
	err     string
	lastUpd bool // the token just consumed was a postfix ++/--
}

func (p *precParser) peek() string {
	if p.i < len(p.toks) {
		return p.toks[p.i]
	}
	return ""
}

func (p *precParser) fail(format string, a ...any) string {
	if p.err == "" {
		p.err = fmt.Sprintf(format, a...)
	}
	return "(error)"
}

func isIdentTok(s string) bool {
	if s == "" {
		return false
	}
	c := s[0]
	return c >= 'a' && c <= 'z' || c >= 'A' && c <= 'Z' || c == '_' || c == '$'
}

func isNumTok(s string) bool { return s != "" && s[0] >= '0' && s[0] <= '9' }

func isTarget(shape string) bool {
	return strings.HasPrefix(shape, "(id ") || strings.HasPrefix(shape, "(dot ") || strings.HasPrefix(shape, "(idx ")
}

func (p *precParser) level(tok string) int {
	if p.t.Postfix[tok] {
		// a token registered both as infix and postfix is ambiguous; callers avoid it
		return PCall
	}
	if l, ok := p.t.Infix[tok]; ok {
		return l
	}
	switch tok {
	case "=", "+=", "-=":
		return PAssign
	case "++", "--":
		return PPost
	case "(":
		return PCall
	case ".", "[":
		return PMember
	}
	return 0
}

func (p *precParser) prefix() string {
	tok := p.peek()
	switch {
	case tok == "":
		return p.fail("unexpected end")
	case p.t.Prefix[tok]:
		p.i++
		p.lastUpd = false
		return fmt.Sprintf("(cpre %s %s)", tok, p.expr(PUnary))
	case tok == "-" || tok == "!" || tok == "++" || tok == "--":
		p.i++
		p.lastUpd = false
		o := p.expr(PUnary)
		if (tok == "++" || tok == "--") && !isTarget(o) && p.err == "" {
			p.fail("invalid update operand")
		}
		return fmt.Sprintf("(un %s %s)", tok, o)
	case tok == "(":
		p.i++
		p.lastUpd = false
		in := p.expr(0)
		if p.peek() != ")" {
			return p.fail(") expected")
		}
		p.i++
		p.lastUpd = false
		return in // grouping dropped; targets stay targets
	case tok == "[":
		p.i++
		var el []string
		if p.peek() != "]" {
			for {
				el = append(el, p.expr(0))
				if p.peek() != "," {
					break
				}
				p.i++
			}
		}
		if p.peek() != "]" {
			return p.fail("] expected")
		}
		p.i++
		p.lastUpd = false
		return "(arr [" + strings.Join(el, " ") + "])"
	case p.t.Dead[tok] || p.t.Postfix[tok] || (p.t.Infix[tok] != 0 && !isIdentTok(tok)) || (isIdentTok(tok) && p.t.Infix[tok] != 0):
		return p.fail("unexpected %s in operand position", tok)
	case isIdentTok(tok):
		p.i++
		p.lastUpd = false
		return "(id " + tok + ")"
	case isNumTok(tok):
		p.i++
		p.lastUpd = false
		return "(num " + tok + ")"
	}
	return p.fail("unexpected %s", tok)
}

func (p *precParser) expr(floor int) string {
	left := p.prefix()
	for p.err == "" {
		tok := p.peek()
		if tok == "" || tok == ";" {
			break
		}
		lvl := p.level(tok)
		if lvl <= floor {
			break
		}
		if p.lastUpd && (tok == "(" || tok == "[" || tok == ".") {
			break // an update expression is not a call or member target
		}
		p.i++
		p.lastUpd = false
		switch {
		case p.t.Postfix[tok]:
			left = fmt.Sprintf("(cpost %s %s)", tok, left)
		case tok == "=" || tok == "+=" || tok == "-=":
			if !isTarget(left) {
				p.fail("invalid assignment target")
			}
			left = fmt.Sprintf("(assign %s %s %s)", tok, left, p.expr(PLowest))
		case tok == "++" || tok == "--":
			if !isTarget(left) {
				p.fail("invalid update operand")
			}
			left = fmt.Sprintf("(post %s %s)", tok, left)
			p.lastUpd = true
		case tok == "(":
			var as []string
			if p.peek() != ")" {
				for {
					as = append(as, p.expr(0))
					if p.peek() != "," {
						break
					}
					p.i++
				}
			}
			if p.peek() != ")" {
				return p.fail(") expected")
			}
			p.i++
			left = fmt.Sprintf("(call %s [%s])", left, strings.Join(as, " "))
		case tok == ".":
			if !isIdentTok(p.peek()) || p.t.Dead[p.peek()] || p.t.Prefix[p.peek()] || p.t.Postfix[p.peek()] || p.t.Infix[p.peek()] != 0 {
				return p.fail("identifier expected after .")
			}
			prop := p.expr(PMember)
			if strings.HasPrefix(prop, "(id ") {
				left = fmt.Sprintf("(dot %s %s)", left, prop[4:len(prop)-1])
			} else {
				left = fmt.Sprintf("(dot %s ?%s)", left, prop)
			}
		case tok == "[":
			ix := p.expr(0)
			if p.peek() != "]" {
				return p.fail("] expected")
			}
			p.i++
			left = fmt.Sprintf("(idx %s %s)", left, ix)
		default:
			if _, builtin := builtinBinary[tok]; builtin && p.t.Infix[tok] == builtinBinary[tok] {
				left = fmt.Sprintf("(bin %s %s %s)", tok, left, p.expr(lvl))
			} else {
				left = fmt.Sprintf("(cin %s %s %s)", tok, left, p.expr(lvl))
			}
		}
	}
	return left
}

// PrecParse parses one expression statement (space-separated tokens). ok=false: the model rejects it.
func PrecParse(tokens []string, t *PrecTable) (shape string, why string, ok bool) {
	p := &precParser{toks: tokens, t: t}
	s := p.expr(0)
	if p.err == "" && p.peek() == ";" {
		p.i++
	}
	if p.err == "" && p.i != len(p.toks) {
		p.fail("unexpected %s after the expression", p.peek())
	}
	if p.err != "" {
		return "", p.err, false
	}
	return "[(expr " + s + ")]", "", true
}
