package ref

import (
	"fmt"
	"strings"
)

// Seg is one decoded (absolute) source-map segment.
type Seg struct {
	GenLine, GenCol      int
	HasSrc               bool
	Src, SrcLine, SrcCol int
	HasName              bool
	Name                 int
}

func (s Seg) String() string {
	if !s.HasSrc {
		return fmt.Sprintf("%d:%d", s.GenLine, s.GenCol)
	}
	if s.HasName {
		return fmt.Sprintf("%d:%d->%d:%d#%d", s.GenLine, s.GenCol, s.SrcLine, s.SrcCol, s.Name)
	}
	return fmt.Sprintf("%d:%d->%d:%d", s.GenLine, s.GenCol, s.SrcLine, s.SrcCol)
}

const b64 = "ABCDEFGHIJKLMNOPQRSTUVWXYZabcdefghijklmnopqrstuvwxyz0123456789+/"

// DecodeMappings is an independent decoder of the Source Map v3 "mappings" grammar, written from the
// format description: lines separated by ';', segments by ',', each segment 1, 4 or 5 Base64-VLQ
// fields; field 1 is relative to the previous segment of the same line (reset per line), the others
// are relative to the previous occurrence anywhere.
func DecodeMappings(m string) ([]Seg, error) {
	var out []Seg
	line := 0
	src, sl, sc, nm := 0, 0, 0, 0
	for _, ln := range strings.Split(m, ";") {
		col := 0
		if ln != "" {
			for _, sg := range strings.Split(ln, ",") {
				if sg == "" {
					return nil, fmt.Errorf("empty segment on line %d", line)
				}
				vals, err := decodeVLQs(sg)
				if err != nil {
					return nil, err
				}
				if len(vals) != 1 && len(vals) != 4 && len(vals) != 5 {
					return nil, fmt.Errorf("segment %q has %d fields", sg, len(vals))
				}
				col += vals[0]
				s := Seg{GenLine: line, GenCol: col}
				if len(vals) >= 4 {
					src += vals[1]
					sl += vals[2]
					sc += vals[3]
					s.HasSrc, s.Src, s.SrcLine, s.SrcCol = true, src, sl, sc
				}
				if len(vals) == 5 {
					nm += vals[4]
					s.HasName, s.Name = true, nm
				}
				out = append(out, s)
			}
		}
		line++
	}
	return out, nil
}

func decodeVLQs(s string) ([]int, error) {
	var vals []int
	i := 0
	for i < len(s) {
		shift := uint(0)
		v := 0
		for {
			if i >= len(s) {
				return nil, fmt.Errorf("truncated VLQ in %q", s)
			}
			d := strings.IndexByte(b64, s[i])
			if d < 0 {
				return nil, fmt.Errorf("bad base64 digit %q", s[i])
			}
			i++
			v |= (d & 31) << shift
			shift += 5
			if d&32 == 0 {
				break
			}
			if shift > 60 {
				return nil, fmt.Errorf("VLQ too long in %q", s)
			}
		}
		if v&1 == 1 {
			v = -(v >> 1)
		} else {
			v >>= 1
		}
		vals = append(vals, v)
	}
	return vals, nil
}

// MapModel is the boring reference model of the source-map builder.
type MapModel struct {
	Line, Col int
	Segs      []Seg
	Names     []string
	idx       map[string]int
}

func NewMapModel() *MapModel { return &MapModel{idx: map[string]int{}} }

func (m *MapModel) Add(sl, sc int) {
	m.Segs = append(m.Segs, Seg{GenLine: m.Line, GenCol: m.Col, HasSrc: true, SrcLine: sl, SrcCol: sc})
}
func (m *MapModel) AddNamed(sl, sc int, name string) {
	i, ok := m.idx[name]
	if !ok {
		i = len(m.Names)
		m.Names = append(m.Names, name)
		m.idx[name] = i
	}
	m.Segs = append(m.Segs, Seg{GenLine: m.Line, GenCol: m.Col, HasSrc: true, SrcLine: sl, SrcCol: sc, HasName: true, Name: i})
}
func (m *MapModel) AdvCol(n int) { m.Col += n }
func (m *MapModel) AdvLine()     { m.Line++; m.Col = 0 }

// AdvStr: \n, \r\n and \r each count as exactly one line break; any other byte is one column
// (the model is only used on ASCII text).
func (m *MapModel) AdvStr(s string) {
	for i := 0; i < len(s); i++ {
		switch s[i] {
		case '\r':
			if i+1 < len(s) && s[i+1] == '\n' {
				i++
			}
			m.Line++
			m.Col = 0
		case '\n':
			m.Line++
			m.Col = 0
		default:
			m.Col++
		}
	}
}

func SegsString(ss []Seg) string {
	var b []string
	for _, s := range ss {
		b = append(b, s.String())
	}
	return strings.Join(b, " ")
}
