package ref

import (
	"fmt"
	"strings"
	"sync"
	"time"

	"github.com/dop251/goja"
)

// R-js: the reference semantics of a program is the text itself run by a JavaScript engine (goja).
// Free identifiers are bound to Proxy-wrapped host functions whose calls, property reads/writes and
// to-primitive conversions are logged, so that evaluation order and grouping are observable.

const jsPrelude = `
var __log = [];
// a run-away loop is cut off after 20000 log entries (a distinct completion kind, reached without a timer)
__log.push = function(x) { if (this.length >= 20000) { var e = new Error('log overflow'); e.name = 'LogOverflow'; throw e; } return Array.prototype.push.call(this, x); };
// source text of functions is layout, not behaviour: make it unobservable
Function.prototype.toString = function() { return 'function'; };
function print() { __log.push('print:' + Array.prototype.map.call(arguments, __show).join(',')); }
function __show(v) {
  if (typeof v === 'string') { var cu = []; for (var i = 0; i < v.length; i++) cu.push(v.charCodeAt(i)); return 's[' + cu.join(' ') + ']'; }
  if (typeof v === 'number') return 'n:' + (Object.is(v, -0) ? '-0' : String(v));
  if (typeof v === 'function') return v.__name ? 'P' + v.__name : 'fn';
  if (v === null) return 'null';
  if (v === undefined) return 'undefined';
  if (typeof v === 'object') return Array.isArray(v) ? 'arr[' + v.map(__show).join(',') + ']' : 'obj{' + Object.keys(v).join(',') + '}';
  return typeof v + ':' + String(v);
}
function __mk(name, num) {
  var t = function() { __log.push(name + '(' + Array.prototype.map.call(arguments, __show).join(',') + ')'); return num + 10; };
  return new Proxy(t, {
    get: function(o, k) {
      if (k === Symbol.toPrimitive) return function(h) { __log.push(name + '.prim'); return num; };
      if (k === '__name') return name;
      __log.push(name + '.' + String(k)); return num + 1; },
    set: function(o, k, v) { __log.push(name + '.' + String(k) + '=' + __show(v)); return true; }
  });
}
(function() {
  var names = ['a','b','c','e','f','k','p','q','s','t','z','x','y','w','g','h','n','i'];
  for (var j = 0; j < names.length; j++) globalThis[names[j]] = __mk(names[j], j + 2);
  globalThis.T1 = 1; globalThis.F0 = 0;
})();
`

var preludeProg = goja.MustCompile("prelude", jsPrelude, false)

// Obs is what one run shows: the log, the completion kind and the completion value.
type Obs struct {
	Log, Kind, Val string
	Interrupted    bool
	Hang           bool // interrupted again under the long limit: the program does not terminate
	EngineCrash    bool
	SyntaxError    bool
}

func (o Obs) String() string { return o.Log + " | " + o.Kind + " | " + o.Val }

// RunJS executes code in a fresh realm. The interrupt timer is a safety net only: when it fires the run is
// repeated once with a fifteen times longer limit, so that a loaded machine cannot turn a finite run into
// "interrupted"; a run that is interrupted twice did not terminate (Hang).
// OnReturn, when set, is called whenever a reference-engine run has returned (progress signal for the
// harness watchdog: a hang is a single call that does not return, not a large case made of many calls).
var OnReturn func()

func RunJS(code string) (obs Obs) {
	if OnReturn != nil {
		defer OnReturn()
	}
	obs = runJS(code, 2*time.Second)
	if obs.Interrupted {
		obs = runJS(code, 30*time.Second)
		obs.Hang = obs.Interrupted
	}
	return obs
}

func runJS(code string, limit time.Duration) (obs Obs) {
	defer func() {
		// a crash of the reference engine itself (goja panics on some exotic escapes): no verdict
		if r := recover(); r != nil {
			obs = Obs{Kind: "throw:SyntaxError", SyntaxError: true, EngineCrash: true}
		}
	}()
	vm := goja.New()
	if _, err := vm.RunProgram(preludeProg); err != nil {
		return Obs{Kind: "PRELUDE " + err.Error()}
	}
	prog, err := goja.Compile("p", code, false)
	if err != nil {
		return Obs{Kind: "throw:SyntaxError", SyntaxError: true}
	}
	// the timer may only interrupt the program run itself, never the read-out that follows
	var mu sync.Mutex
	finished := false
	timer := time.AfterFunc(limit, func() {
		mu.Lock()
		defer mu.Unlock()
		if !finished {
			vm.Interrupt("timeout")
		}
	})
	v, err := vm.RunProgram(prog)
	mu.Lock()
	finished = true
	mu.Unlock()
	timer.Stop()
	vm.ClearInterrupt()
	o := Obs{Kind: "normal"}
	if err != nil {
		switch ex := err.(type) {
		case *goja.Exception:
			o.Kind = "throw"
			if ob, ok := ex.Value().(*goja.Object); ok {
				if n := ob.Get("name"); n != nil {
					o.Kind = "throw:" + n.String()
				}
			} else {
				o.Kind = "throw-value"
			}
		case *goja.InterruptedError:
			o.Interrupted = true
			o.Kind = "interrupted"
		default:
			o.Kind = fmt.Sprintf("err:%T", err)
		}
	} else {
		vm.ClearInterrupt()
		if show, ok := goja.AssertFunction(vm.Get("__show")); ok {
			if r, err := show(goja.Undefined(), v); err == nil {
				o.Val = r.String()
			}
		}
	}
	if lg := vm.Get("__log"); lg != nil {
		if arr, ok := lg.Export().([]interface{}); ok {
			parts := make([]string, len(arr))
			for i, x := range arr {
				parts[i] = fmt.Sprint(x)
			}
			o.Log = strings.Join(parts, ";")
		}
	}
	return o
}
