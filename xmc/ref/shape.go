// Package ref: reference models. shape.go maps goja's ECMAScript AST and xjs's AST to one canonical
// S-expression so that tree shapes can be compared; node kinds outside the xjs subset put a text
// outside the domain (Outside != "").
package ref

import (
	"fmt"
	"reflect"
	"strings"

	gast "github.com/dop251/goja/ast"
	gparser "github.com/dop251/goja/parser"
	xast "github.com/xjslang/xjs/ast"
)

type outside struct{ why string }

func out(why string) { panic(outside{why}) }

func gStmts(ss []gast.Statement) string {
	var b []string
	for _, s := range ss {
		b = append(b, gStmt(s))
	}
	return "[" + strings.Join(b, " ") + "]"
}

func gOpt(e gast.Expression) string {
	if e == nil {
		return "_"
	}
	return gExpr(e)
}

func gFunc(f *gast.FunctionLiteral) string {
	if f.Async || f.Generator {
		out("async/generator")
	}
	name := "_"
	if f.Name != nil {
		name = string(f.Name.Name)
		if name == "let" {
			out("let as identifier")
		}
	}
	var ps []string
	if f.ParameterList.Rest != nil {
		out("rest")
	}
	for _, p := range f.ParameterList.List {
		id, ok := p.Target.(*gast.Identifier)
		if !ok || p.Initializer != nil {
			out("param pattern/default")
		}
		if id.Name == "let" {
			out("let as identifier")
		}
		ps = append(ps, string(id.Name))
	}
	return fmt.Sprintf("%s (%s) %s", name, strings.Join(ps, ","), gStmts(f.Body.List))
}

func gLet(d *gast.LexicalDeclaration) string {
	if d.Token.String() != "let" || len(d.List) != 1 {
		out("const / multi let")
	}
	id, ok := d.List[0].Target.(*gast.Identifier)
	if !ok {
		out("let pattern")
	}
	if id.Name == "let" {
		out("let as identifier")
	}
	return fmt.Sprintf("(let %s %s)", id.Name, gOpt(d.List[0].Initializer))
}

func gStmt(s gast.Statement) string {
	switch s := s.(type) {
	case *gast.LexicalDeclaration:
		return gLet(s)
	case *gast.FunctionDeclaration:
		return "(func " + gFunc(s.Function) + ")"
	case *gast.ReturnStatement:
		return "(return " + gOpt(s.Argument) + ")"
	case *gast.IfStatement:
		alt := "_"
		if s.Alternate != nil {
			alt = gStmt(s.Alternate)
		}
		return fmt.Sprintf("(if %s %s %s)", gExpr(s.Test), gStmt(s.Consequent), alt)
	case *gast.WhileStatement:
		return fmt.Sprintf("(while %s %s)", gExpr(s.Test), gStmt(s.Body))
	case *gast.ForStatement:
		init := "_"
		switch i := s.Initializer.(type) {
		case nil:
		case *gast.ForLoopInitializerExpression:
			init = gExpr(i.Expression)
		case *gast.ForLoopInitializerLexicalDecl:
			init = gLet(&i.LexicalDeclaration)
		default:
			out("for var")
		}
		return fmt.Sprintf("(for %s %s %s %s)", init, gOpt(s.Test), gOpt(s.Update), gStmt(s.Body))
	case *gast.BlockStatement:
		return "(block " + gStmts(s.List) + ")"
	case *gast.ExpressionStatement:
		return "(expr " + gExpr(s.Expression) + ")"
	default:
		out(fmt.Sprintf("stmt %T", s))
	}
	return ""
}

var binops = map[string]bool{"+": true, "-": true, "*": true, "/": true, "%": true, "==": true, "!=": true, "<": true, ">": true, "<=": true, ">=": true, "&&": true, "||": true}

var relational = map[string]bool{"<": true, ">": true, "<=": true, ">=": true}

// curSrc is the text handed to goja (with wrapper); node Idx values are 1-based offsets into it.
var curSrc string

// parenthesised reports whether node r (which starts after offset from) is wrapped as a whole by a
// parenthesis opened between from and r's first byte.
func parenthesised(from int, r gast.Expression) bool {
	lo, hi := int(r.Idx0())-1, int(r.Idx1())-1
	if from < 0 || lo > len(curSrc) || hi > len(curSrc) || from > lo || lo > hi {
		return false
	}
	depth := 0
	scan := func(a, b int, trackMin bool) int {
		min := 1 << 30
		for i := a; i < b; i++ {
			switch c := curSrc[i]; {
			case c == '/' && i+1 < b && curSrc[i+1] == '/':
				for i < b && curSrc[i] != '\n' {
					i++
				}
			case c == '\'' || c == '"' || c == '`':
				i++
				for i < b && curSrc[i] != c {
					if curSrc[i] == '\\' {
						i++
					}
					i++
				}
			case c == '(':
				depth++
			case c == ')':
				depth--
				if !trackMin && depth < 0 {
					depth = 0 // closes a parenthesis of the left operand
				}
			}
			if trackMin && depth < min {
				min = depth
			}
		}
		return min
	}
	scan(from, lo, false)
	if depth <= 0 {
		return false
	}
	open := depth
	min := scan(lo, hi, true)
	_ = open
	return min >= 1
}

func gExpr(e gast.Expression) string {
	switch e := e.(type) {
	case *gast.Identifier:
		if e.Name == "let" {
			out("let as identifier")
		}
		return "(id " + string(e.Name) + ")"
	case *gast.NumberLiteral:
		if j, _, err := scanNumber(e.Literal+" ", 0); err != nil || j != len(e.Literal) || !isDigit(e.Literal[0]) || legacyOctalLike(e.Literal) {
			out("number form outside the subset")
		}
		return "(num " + e.Literal + ")"
	case *gast.StringLiteral:
		return "(str)"
	case *gast.TemplateLiteral:
		if e.Tag != nil {
			out("tagged template")
		}
		return "(tpl)"
	case *gast.BooleanLiteral:
		return "(bool " + e.Literal + ")"
	case *gast.NullLiteral:
		return "(null)"
	case *gast.UnaryExpression:
		op := e.Operator.String()
		if op != "-" && op != "!" && op != "++" && op != "--" {
			out("unary " + op)
		}
		if e.Postfix {
			return fmt.Sprintf("(post %s %s)", op, gExpr(e.Operand))
		}
		return fmt.Sprintf("(un %s %s)", op, gExpr(e.Operand))
	case *gast.BinaryExpression:
		op := e.Operator.String()
		if !binops[op] {
			out("binary " + op)
		}
		if relational[op] {
			// goja quirk (inherited from otto): relational operators are parsed right-recursively, so
			// `a < b < c` comes back as a < (b < c). ECMAScript says left-associative. Re-associate the
			// right spine unless the right operand was explicitly parenthesised in the source.
			operands := []gast.Expression{e.Left}
			ops := []string{}
			cur := e
			for {
				ops = append(ops, cur.Operator.String())
				r, ok := cur.Right.(*gast.BinaryExpression)
				if ok && relational[r.Operator.String()] && !parenthesised(int(cur.Left.Idx1())-1, r) {
					operands = append(operands, r.Left)
					cur = r
					continue
				}
				operands = append(operands, cur.Right)
				break
			}
			acc := gExpr(operands[0])
			for i, o := range ops {
				acc = fmt.Sprintf("(bin %s %s %s)", o, acc, gExpr(operands[i+1]))
			}
			return acc
		}
		return fmt.Sprintf("(bin %s %s %s)", op, gExpr(e.Left), gExpr(e.Right))
	case *gast.AssignExpression:
		op := e.Operator.String()
		// goja stores compound assignment with the binary operator token
		switch op {
		case "=":
		case "+":
			op = "+="
		case "-":
			op = "-="
		default:
			out("assign " + op)
		}
		return fmt.Sprintf("(assign %s %s %s)", op, gExpr(e.Left), gExpr(e.Right))
	case *gast.CallExpression:
		var as []string
		for _, a := range e.ArgumentList {
			as = append(as, gExpr(a))
		}
		return fmt.Sprintf("(call %s [%s])", gExpr(e.Callee), strings.Join(as, " "))
	case *gast.DotExpression:
		if Keywords[string(e.Identifier.Name)] {
			out("keyword as property name")
		}
		return fmt.Sprintf("(dot %s %s)", gExpr(e.Left), e.Identifier.Name)
	case *gast.BracketExpression:
		return fmt.Sprintf("(idx %s %s)", gExpr(e.Left), gExpr(e.Member))
	case *gast.ArrayLiteral:
		var as []string
		for _, a := range e.Value {
			if a == nil {
				out("array hole")
			}
			as = append(as, gExpr(a))
		}
		return fmt.Sprintf("(arr [%s])", strings.Join(as, " "))
	case *gast.ObjectLiteral:
		var ps []string
		for _, p := range e.Value {
			k, ok := p.(*gast.PropertyKeyed)
			if !ok || k.Computed || k.Kind != gast.PropertyKindValue {
				out("object property form")
			}
			key := ""
			switch kk := k.Key.(type) {
			case *gast.StringLiteral:
				key = "k:" + string(kk.Value)
				// goja hands an unquoted identifier-name key over as a string literal whose raw text has no quotes
				if lit := kk.Literal; lit != "" && lit[0] != '\'' && lit[0] != '"' && Keywords[string(kk.Value)] {
					out("keyword as object key")
				}
			case *gast.NumberLiteral:
				key = "k:" + kk.Literal
			case *gast.Identifier:
				key = "k:" + string(kk.Name)
				if Keywords[string(kk.Name)] {
					out("keyword as object key")
				}
			default:
				out(fmt.Sprintf("key %T", kk))
			}
			ps = append(ps, key+"="+gExpr(k.Value))
		}
		return fmt.Sprintf("(obj [%s])", strings.Join(ps, " "))
	case *gast.FunctionLiteral:
		return "(fn " + gFunc(e) + ")"
	default:
		out(fmt.Sprintf("expr %T", e))
	}
	return ""
}

// ---- xjs side

// XStmts is the shape of an xjs statement list (grouping nodes dropped).
func XStmts(ss []xast.Statement) (out string) {
	defer func() {
		if r := recover(); r != nil {
			out = fmt.Sprintf("[(?incomplete-tree %v)]", r) // only trees of rejected inputs are incomplete
		}
	}()
	var b []string
	for _, s := range ss {
		b = append(b, xStmt(s))
	}
	return "[" + strings.Join(b, " ") + "]"
}
func xOpt(e xast.Expression) string {
	if e == nil {
		return "_"
	}
	return xExpr(e)
}
func xParams(ps []*xast.Identifier) string {
	var s []string
	for _, p := range ps {
		s = append(s, p.Value)
	}
	return strings.Join(s, ",")
}

// nilNode: nil interface or typed nil pointer (trees of rejected inputs contain both).
func nilNode(n any) bool {
	if n == nil {
		return true
	}
	v := reflect.ValueOf(n)
	return v.Kind() == reflect.Ptr && v.IsNil()
}

func xStmt(s xast.Statement) string {
	if nilNode(s) {
		return "(nil)"
	}
	switch s := s.(type) {
	case *xast.LetStatement:
		return fmt.Sprintf("(let %s %s)", s.Name.Value, xOpt(s.Value))
	case *xast.FunctionDeclaration:
		return fmt.Sprintf("(func %s (%s) %s)", s.Name.Value, xParams(s.Parameters), XStmts(s.Body.Statements))
	case *xast.ReturnStatement:
		return "(return " + xOpt(s.ReturnValue) + ")"
	case *xast.IfStatement:
		alt := "_"
		if s.ElseBranch != nil {
			alt = xStmt(s.ElseBranch)
		}
		return fmt.Sprintf("(if %s %s %s)", xExpr(s.Condition), xStmt(s.ThenBranch), alt)
	case *xast.WhileStatement:
		return fmt.Sprintf("(while %s %s)", xExpr(s.Condition), xStmt(s.Body))
	case *xast.ForStatement:
		return fmt.Sprintf("(for %s %s %s %s)", xOpt(s.Init), xOpt(s.Condition), xOpt(s.Update), xStmt(s.Body))
	case *xast.BlockStatement:
		return "(block " + XStmts(s.Statements) + ")"
	case *xast.ExpressionStatement:
		return "(expr " + xExpr(s.Expression) + ")"
	}
	return fmt.Sprintf("(?stmt %T)", s)
}
func xExpr(e xast.Expression) string {
	if nilNode(e) {
		return "(nil)"
	}
	switch e := e.(type) {
	case *xast.Identifier:
		return "(id " + e.Value + ")"
	case *xast.IntegerLiteral:
		return "(num " + e.Token.Literal + ")"
	case *xast.FloatLiteral:
		return "(num " + e.Token.Literal + ")"
	case *xast.StringLiteral:
		return "(str)"
	case *xast.MultiStringLiteral:
		return "(tpl)"
	case *xast.BooleanLiteral:
		return "(bool " + e.Token.Literal + ")"
	case *xast.NullLiteral:
		return "(null)"
	case *xast.LetExpression:
		return fmt.Sprintf("(let %s %s)", e.Name.Value, xOpt(e.Value))
	case *xast.UnaryExpression:
		return fmt.Sprintf("(un %s %s)", e.Operator, xExpr(e.Right))
	case *xast.PostfixExpression:
		return fmt.Sprintf("(post %s %s)", e.Operator, xExpr(e.Left))
	case *xast.BinaryExpression:
		return fmt.Sprintf("(bin %s %s %s)", e.Operator, xExpr(e.Left), xExpr(e.Right))
	case *xast.AssignmentExpression:
		return fmt.Sprintf("(assign = %s %s)", xExpr(e.Left), xExpr(e.Value))
	case *xast.CompoundAssignmentExpression:
		return fmt.Sprintf("(assign %s= %s %s)", e.Operator, xExpr(e.Left), xExpr(e.Value))
	case *xast.GroupedExpression:
		return xExpr(e.Expression)
	case *xast.CallExpression:
		var as []string
		for _, a := range e.Arguments {
			as = append(as, xExpr(a))
		}
		return fmt.Sprintf("(call %s [%s])", xExpr(e.Function), strings.Join(as, " "))
	case *xast.MemberExpression:
		if e.Computed {
			return fmt.Sprintf("(idx %s %s)", xExpr(e.Object), xExpr(e.Property))
		}
		if id, ok := e.Property.(*xast.Identifier); ok {
			return fmt.Sprintf("(dot %s %s)", xExpr(e.Object), id.Value)
		}
		return fmt.Sprintf("(dot %s ?%s)", xExpr(e.Object), xExpr(e.Property))
	case *xast.ArrayLiteral:
		var as []string
		for _, a := range e.Elements {
			as = append(as, xExpr(a))
		}
		return fmt.Sprintf("(arr [%s])", strings.Join(as, " "))
	case *xast.ObjectLiteral:
		var ps []string
		for _, p := range e.Properties {
			key := "k?" + xExpr(p.Key)
			switch k := p.Key.(type) {
			case *xast.Identifier:
				key = "k:" + k.Value
			case *xast.StringLiteral:
				key = "k:" + k.Value
			case *xast.IntegerLiteral:
				key = "k:" + k.Token.Literal
			case *xast.FloatLiteral:
				key = "k:" + k.Token.Literal
			}
			ps = append(ps, key+"="+xExpr(p.Value))
		}
		return fmt.Sprintf("(obj [%s])", strings.Join(ps, " "))
	case *xast.FunctionExpression:
		name := "_"
		if e.Name != nil {
			name = e.Name.Value
		}
		return fmt.Sprintf("(fn %s (%s) %s)", name, xParams(e.Parameters), XStmts(e.Body.Statements))
	}
	if c, ok := e.(CustomShaper); ok {
		return c.XShape(xExpr)
	}
	return fmt.Sprintf("(?expr %T)", e)
}

// CustomShaper is implemented by harness-defined expression nodes (plugin operators in C05).
type CustomShaper interface {
	XShape(sub func(xast.Expression) string) string
}

// XExpr is the shape of one xjs expression.
func XExpr(e xast.Expression) string { return xExpr(e) }

// GShape parses src with goja (as a function body, so that `return` is legal) and returns the
// canonical shape. ok=false: rejected by goja (why="reject: ...") or outside the subset.
func GShape(src string) (shape string, why string, ok bool) {
	curSrc = "(function(){\n" + src + "\n})"
	prog, err := safeParse(curSrc)
	if err != nil {
		return "", "reject", false
	}
	defer func() {
		if r := recover(); r != nil {
			if o, isO := r.(outside); isO {
				why = o.why
				ok = false
				return
			}
			panic(r)
		}
	}()
	if len(prog.Body) != 1 {
		return "", "wrapper-broken", false
	}
	es, isE := prog.Body[0].(*gast.ExpressionStatement)
	if !isE {
		return "", "wrapper-broken", false
	}
	fl, isF := es.Expression.(*gast.FunctionLiteral)
	if !isF {
		return "", "wrapper-broken", false
	}
	return gStmts(fl.Body.List), "", true
}

// GRejects reports whether goja rejects src both as a script and as a function body.
func GRejects(src string) bool {
	if _, err := safeParse(src); err == nil {
		return false
	}
	if _, err := safeParse("(function(){\n" + src + "\n})"); err == nil {
		return false
	}
	return true
}

// legacyOctalLike: 017, 08 ... (leading zero followed by a digit) are outside the subset (D5).
func legacyOctalLike(lit string) bool {
	return len(lit) > 1 && lit[0] == '0' && isDigit(lit[1])
}

// safeParse shields the harness from panics of the reference parser (treated as a rejection).
func safeParse(src string) (prog *gast.Program, err error) {
	defer func() {
		if r := recover(); r != nil {
			prog, err = nil, fmt.Errorf("reference parser panic: %v", r)
		}
	}()
	return gparser.ParseFile(nil, "", src, 0)
}
