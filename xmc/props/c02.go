package props

import (
	"encoding/json"
	"fmt"
	"strings"

	"xmc/core"
	"xmc/gen"
	"xmc/ref"
)

// C02: the subset is parsed exactly as JavaScript parses it.
// Universe (i): every token sequence <= n over the 45-lexeme alphabet, in every layout over
// {space, LF}^(gaps), filtered by the reference parser (goja) to subset-only programs, plus every
// single-gap deviation with other gap kinds. Oracle: xjs strict/default parse has no error and
// shape(xjs minus grouping) == shape(goja).

type c02Payload struct {
	Src string `json:"src"`
}

// c02Check: outside=true when the reference rejects the text or it is not subset-only.
func c02Check(src string) (outside bool, kind, detail string) {
	gs, _, ok := ref.GShape(src)
	if !ok {
		return true, "", ""
	}
	o := parseMode(src, Mode{})
	if o.Panic != "" {
		return false, "panic", o.Panic
	}
	if o.Err != nil || len(o.Errs) > 0 {
		msg := ""
		if len(o.Errs) > 0 {
			msg = o.Errs[0].Message
		}
		return false, "rejected", fmt.Sprintf("valid subset program (reference tree %s) rejected: %s", gs, msg)
	}
	if xs := ref.XStmts(o.Prog.Statements); xs != gs {
		return false, "shape", fmt.Sprintf("reference %s, xjs %s", gs, xs)
	}
	return false, "", ""
}

var (
	cantStart = tokSet("= += -= * / % == != < > <= >= && || , : . ) } ] else")
	canEnd    = tokSet("a b 1 's' `t` return true false null ++ -- ; ) } ] let")
)

func tokSet(s string) map[int]bool {
	m := map[int]bool{}
	for _, w := range strings.Fields(s) {
		for i, t := range gen.T {
			if t == w {
				m[i] = true
			}
		}
	}
	return m
}

var tokIdx = func() map[string]int {
	m := map[string]int{}
	for i, t := range gen.T {
		m[t] = i
	}
	return m
}()

// prefilter: sound rejections that hold in every layout (never drops a valid subset program):
// first/last token classes, bracket balance, trailing commas (domain restriction D2).
func c02Prefilter(idx []int) bool {
	n := len(idx)
	if n == 0 {
		return true
	}
	if cantStart[idx[0]] || !canEnd[idx[n-1]] {
		return false
	}
	var st [16]byte
	d := 0
	for i, x := range idx {
		switch gen.T[x] {
		case "(", "{", "[":
			if d == len(st) {
				return false
			}
			st[d] = gen.T[x][0]
			d++
		case ")", "}", "]":
			if d == 0 {
				return false
			}
			d--
			o := st[d]
			c := gen.T[x][0]
			if o == '(' && c != ')' || o == '{' && c != '}' || o == '[' && c != ']' {
				return false
			}
			if i > 0 && gen.T[idx[i-1]] == "," {
				return false // D2 trailing comma
			}
		}
	}
	return d == 0
}

var c02AltGaps = []string{"", "\t", "\r\n", " // c\n", "\n\n", "  "}

func c02Render(idx []int, gaps []string) string {
	var b strings.Builder
	for i, x := range idx {
		if i > 0 {
			b.WriteString(gaps[i-1])
		}
		b.WriteString(gen.T[x])
	}
	return b.String()
}

func c02Violation(idx []int, gaps []string) core.Violation {
	// shrink: delete tokens (with the gap before them), simplify tokens, reset gaps to " "
	type el struct {
		tok int
		gap string // gap before the token
	}
	seq := make([]el, len(idx))
	for i := range idx {
		g := ""
		if i > 0 {
			g = gaps[i-1]
		}
		seq[i] = el{idx[i], g}
	}
	render := func(s []el) string {
		var b strings.Builder
		for i, e := range s {
			if i > 0 {
				b.WriteString(e.gap)
			}
			b.WriteString(gen.T[e.tok])
		}
		return b.String()
	}
	fails := func(s []el) bool { out, k, _ := c02Check(render(s)); return !out && k != "" }
	sh := core.ShrinkSeq(seq, func(e el) []el {
		var c []el
		if e.gap != " " {
			c = append(c, el{e.tok, " "})
			if e.gap != "\n" {
				c = append(c, el{e.tok, "\n"})
			}
		}
		for _, t := range gen.Simpler(e.tok) {
			c = append(c, el{t, e.gap})
		}
		return c
	}, fails)
	src := render(sh)
	_, k, d := c02Check(src)
	pl, _ := json.Marshal(c02Payload{src})
	return core.Violation{Kind: k, Case: fmt.Sprintf("%q", src), Detail: d, Payload: pl, Size: len(sh)}
}

// c02ClassN: length 6 (thorough; quick: length 5, which the thorough tier covers with the full alphabet) over the
// class alphabet.
func c02ClassN(c *core.Ctx) {
	N := 5
	if c.Thorough() {
		N = 6
	}
	{
		cls := make([]int, len(gen.TClass))
		for i, t := range gen.TClass {
			for j, u := range gen.T {
				if t == u {
					cls[i] = j
				}
			}
		}
		idx := make([]int, N)
		g6 := make([]string, N-1)
		gen.EachSeq(len(cls), N, func(ci []int) bool {
			if !c.Next() {
				return true
			}
			if c.Tick() {
				return false
			}
			for i, x := range ci {
				idx[i] = cls[x]
			}
			c.Inc("token_sequences")
			if !c02Prefilter(idx) {
				c.Inc("prefiltered")
				return true
			}
			for _, sep := range []string{" ", "\n"} {
				for g := range g6 {
					g6[g] = sep
				}
				src := c02Render(idx, g6)
				c.Cur(src)
				c.Inc("reference_parses")
				out, k, _ := c02Check(src)
				if out {
					continue
				}
				c.Inc("programs")
				c.Inc(fmt.Sprintf("programs_length_%d_class_alphabet", N))
				if k != "" && c.ShrinkOK(k) {
					c.Violate(c02Violation(append([]int{}, idx...), append([]string{}, g6...)))
				}
			}
			return true
		})
		if !c.Expired() {
			c.SetMax("token_length_completed_class_alphabet", int64(N))
		}
	}
}

func c02Run(c *core.Ctx) {
	processWarmup(c)
	n := 4
	if c.Thorough() {
		n = 5
	}
	gaps := make([]string, 8)
	for L := 1; L <= n; L++ {
		gen.EachSeq(len(gen.T), L, func(idx []int) bool {
			if !c.Next() {
				return true
			}
			if c.Tick() {
				return false
			}
			c.Inc("token_sequences")
			if !c02Prefilter(idx) {
				c.Inc("prefiltered")
				return true
			}
			ng := L - 1
			for mask := 0; mask < 1<<ng; mask++ {
				for g := 0; g < ng; g++ {
					gaps[g] = " "
					if mask>>g&1 == 1 {
						gaps[g] = "\n"
					}
				}
				src := c02Render(idx, gaps[:ng])
				c.Cur(src)
				c.Inc("reference_parses")
				out, k, _ := c02Check(src)
				if out {
					continue
				}
				c.Inc("programs")
				if mask != 0 {
					c.Inc("programs_with_line_breaks")
				}
				if c.Distinct("tokseq", gen.Join(gen.T, idx, " ")) {
					c.Inc("distinct_valid_token_sequences")
				}
				if k != "" && c.ShrinkOK(k) {
					c.Violate(c02Violation(idx, gaps[:ng]))
				}
				if c.Count0()%90001 == 0 {
					c.Sample(src)
				}
				// single-gap deviations with the other gap kinds
				for g := 0; g < ng; g++ {
					save := gaps[g]
					for _, alt := range c02AltGaps {
						gaps[g] = alt
						s2 := c02Render(idx, gaps[:ng])
						c.Inc("reference_parses")
						out2, k2, _ := c02Check(s2)
						if out2 {
							continue
						}
						c.Inc("programs")
						c.Inc("programs_with_gap_deviation")
						if k2 != "" && c.ShrinkOK(k2) {
							c.Violate(c02Violation(idx, gaps[:ng]))
						}
					}
					gaps[g] = save
				}
			}
			return true
		})
		if !c.Tick() {
			c.SetMax("token_length_completed", int64(L))
		}
	}
	c02Trees(c)
	c02Stmts(c)
	// numeric literal acceptance: every literal shape of the C07 family that the reference accepts
	for _, lit := range c07Numbers(c.Thorough()) {
		if !c.Next() {
			continue
		}
		src := "x = " + lit + " ;"
		c.Inc("reference_parses")
		out, k, d := c02Check(src)
		if out {
			continue
		}
		c.Inc("programs")
		c.Inc("number_literal_programs")
		if k != "" && c.ShrinkOK(k) {
			pl, _ := json.Marshal(c02Payload{src})
			c.Violate(core.Violation{Kind: k, Config: "number", Case: fmt.Sprintf("%q", src), Detail: d, Payload: pl, Size: len(lit)})
		}
	}
	c02ClassN(c)
	// soundness self-check of the prefilter at n<=3: nothing it drops may be a valid subset program
	if c.Shard == 0 {
		for L := 1; L <= 3; L++ {
			gen.EachSeq(len(gen.T), L, func(idx []int) bool {
				if c02Prefilter(idx) {
					return true
				}
				for _, sep := range []string{" ", "\n"} {
					if _, _, ok := ref.GShape(gen.Join(gen.T, idx, sep)); ok {
						// D2 (trailing comma) is a deliberate domain restriction, not a prefilter error
						s := gen.Join(gen.T, idx, " ")
						if strings.Contains(s, ", ]") || strings.Contains(s, ", )") || strings.Contains(s, ", }") {
							continue
						}
						c.Inc("prefilter_dropped_valid")
						c.Note("prefilter_dropped_example", s)
					}
				}
				return true
			})
		}
		c.Inc("prefilter_selfcheck_done")
	}
}

func c02Replay(pl json.RawMessage) (string, []core.Violation) {
	var p c02Payload
	json.Unmarshal(pl, &p)
	gs, why, ok := ref.GShape(p.Src)
	out := fmt.Sprintf("source %q\nreference: ok=%v %s %s", p.Src, ok, why, gs)
	o := parseMode(p.Src, Mode{})
	if o.Prog != nil {
		out += fmt.Sprintf("\nxjs: err=%v %s", o.Err, ref.XStmts(o.Prog.Statements))
	}
	if outside, k, d := c02Check(p.Src); !outside && k != "" {
		return out, []core.Violation{{Kind: k, Case: fmt.Sprintf("%q", p.Src), Detail: d}}
	}
	return out, nil
}

func init() {
	core.Register(&core.PropSpec{
		ID: "C02", Level: "exploration",
		Rule:     "every token sequence of length 1..n (n=4 quick, 5 thorough) over the 45-lexeme alphabet, in every layout over {space, LF} per gap plus every single-gap deviation to {none, TAB, CRLF, comment+LF, blank line, two spaces}; the reference ECMAScript parser (goja) selects the texts that are valid and use only subset node kinds; xjs (strict, default) must accept each and build the same tree shape (grouping nodes dropped). non-trivial = distinct (token sequence) that is a valid subset program; programs = valid (sequence, layout) pairs compared Added families: tokens that contain line breaks (multi-line templates, continued strings) after return, before ++/--, before ( and [ (15 templates x 5 literals); the scale family; thorough: all bracket-balanced sequences of length 6 over the 30-token class alphabet in space and LF layouts. Added (round 13): length 5 over the class alphabet in the quick tier.",
		Assume:   []string{"goja's parser is the reference for ECMAScript structure", "domain restrictions D1-D5 of DESIGN.md §7 (keywords as property names, trailing commas, let as identifier, legacy number forms) are outside 'the supported subset'"},
		QuickSec: 240, ThorSec: 2400, Run: c02Run, Replay: c02Replay,
		Evals: "programs", Nontriv: "distinct_valid_token_sequences",
	})
}

// c02Trees: universe (ii) — expression chains of depth <= 3 (every operator pair/triple and operand
// position), rendered by the independent unparser with minimal and with redundant parentheses, in the
// default layout and with every single gap turned into a line break.
func c02Trees(c *core.Ctx) {
	full := c.Thorough()
	leaves := gen.Leaves()
	for depth := 1; depth <= 3; depth++ {
		hs := gen.Holes(full || depth < 3)
		lv := leaves
		if depth == 3 && !full {
			lv = leaves[:3]
		}
		gen.Chains(hs, lv, depth, false, func(e *gen.Node, name string) {
			if !c.Next() || c.Tick() {
				return
			}
			prog := []*gen.Node{gen.Ex(e), gen.Ex(gen.I("z"))}
			want := gen.ShapeProgram(prog)
			for _, red := range []bool{false, true} {
				toks := gen.UnparseProgram(prog, red)
				ng := len(toks)
				if depth == 3 && !full {
					ng = 1 // default layout only
				}
				for dev := 0; dev < ng; dev++ {
					src := gen.Render(toks, func(i int) string {
						if i == dev {
							return "\n"
						}
						return " "
					}, nil)
					c.Cur(src)
					c.Inc("reference_parses")
					gs, _, ok := ref.GShape(src)
					if !ok {
						c.Inc("tree_texts_outside_domain")
						continue
					}
					c.Inc("programs")
					c.Inc("tree_programs")
					if dev == 0 && !red {
						if c.Distinct("tree", want) {
							c.Inc("distinct_valid_token_sequences")
						}
						if gs != want {
							// generator self-check: only meaningful in the hazard-free default layout
							c.Inc("generator_intent_differs_from_reference")
							c.Note("generator_mismatch_example", src+" intended "+want+" reference "+gs)
						}
					}
					_, k, d := c02Check(src)
					if k != "" && c.ShrinkOK(k) {
						pl, _ := json.Marshal(c02Payload{src})
						c.Violate(core.Violation{Kind: k, Config: "tree", Case: fmt.Sprintf("%q", src), Detail: d, Payload: pl, Size: len(toks)})
					}
					if c.Count0()%20011 == 0 {
						c.Sample(src)
					}
				}
			}
		})
	}
}

// c02Stmts: universe (iii) — statement families (every statement form x body kind x neighbour whose
// first token is ( [ - ++ ` identifier keyword, nested function expressions) in every layout with at
// most k deviations (gap kinds incl. comments, blank lines, CRLF; optional semicolons dropped).
// c02MultiLine: tokens that contain line breaks themselves (multi-line templates, continued strings) in
// the positions where "a line break before the next token" matters: after return, before ++/--, before ( and [.
func c02MultiLine(c *core.Ctx) {
	lits := []string{"`a\nb`", "`\n`", "'a\\\nb'", "`x`", "`\n\n`"}
	tmpls := []string{"function f() { return %s }", "function f() { return %s\n}", "function f() { return\n%s }", "x = %s\n++y", "x = %s ++y", "%s\n(a)", "x = %s\n[1]", "x = [%s, %s]\ny", "a(%s)\n--b",
		"if (a) x = %s\nelse y = 1", "let s = %s\nlet t = %s", "x = a + %s\n- b", "f(%s, function() { return %s })", "x = %s.length\n(b)", "return %s"}
	for _, lit := range lits {
		for _, t := range tmpls {
			if !c.Next() || c.Tick() {
				continue
			}
			src := strings.ReplaceAll(t, "%s", lit)
			c.Cur(src)
			c.Inc("reference_parses")
			if _, _, ok := ref.GShape(src); !ok {
				c.Inc("stmt_texts_outside_domain")
				continue
			}
			c.Inc("programs")
			c.Inc("multiline_token_programs")
			_, kd, d := c02Check(src)
			if kd != "" && c.ShrinkOK(kd) {
				pl, _ := json.Marshal(c02Payload{src})
				c.Violate(core.Violation{Kind: kd, Config: "multiline-token", Case: fmt.Sprintf("%q", src), Detail: d, Payload: pl, Size: len(src)})
			}
		}
	}
}

// c02Scale: the scale family (long chains, deep nesting, many items) against the reference parser.
func c02Scale(c *core.Ctx) {
	for i, sp := range gen.Scale(c.Thorough()) {
		if !c.Mine(int64(i)) || c.Tick() {
			continue
		}
		c.Cur(sp.Name)
		c.Inc("reference_parses")
		out, kd, d := c02Check(sp.Src)
		if out {
			c.Inc("stmt_texts_outside_domain")
			continue
		}
		c.Inc("programs")
		c.Inc("scale_programs")
		if kd != "" && c.ShrinkOK(kd) {
			pl, _ := json.Marshal(c02Payload{sp.Src})
			c.Violate(core.Violation{Kind: kd, Config: "scale", Case: sp.Name, Detail: core.Short(d, 600), Payload: pl, Size: 1000 + len(sp.Src)})
		}
	}
}

// c02Idents: identifier spellings (keyword prefixes / suffixes / case variants, _ and $, lengths) in every
// position a name can take.
func c02Idents(c *core.Ctx) {
	for ii, name := range gen.Identifiers() {
		if !c.Mine(int64(ii)) || c.Tick() {
			continue
		}
		for _, src := range gen.IdentPrograms(name) {
			c.Cur(src)
			c.Inc("reference_parses")
			out, kd, d := c02Check(src)
			if out {
				c.Inc("stmt_texts_outside_domain")
				continue
			}
			c.Inc("programs")
			c.Inc("identifier_programs")
			if kd != "" && c.ShrinkOK("id"+kd) {
				pl, _ := json.Marshal(c02Payload{src})
				c.Violate(core.Violation{Kind: kd, Config: "identifier", Case: fmt.Sprintf("%q", src), Detail: core.Short(d, 600), Payload: pl, Size: 40})
			}
		}
	}
}

func c02Stmts(c *core.Ctx) {
	c02Idents(c)
	c02MultiLine(c)
	c02Scale(c)
	level, k := 1, 1
	gaps := gen.GapAlts
	if c.Thorough() {
		level, k = 2, 2
	}
	gen.Programs(level, func(prog []*gen.Node, name string) {
		if !c.Next() || c.Tick() {
			return
		}
		toks := gen.UnparseProgram(prog, false)
		want := gen.ShapeProgram(prog)
		kk, gg := k, gaps
		if kk > 1 {
			gg = []string{"\n", "", " // c\n"}
			if len(toks) > 30 {
				kk = 1
				gg = gaps
			}
		}
		gen.Layouts(toks, kk, gg, func(src string, devs []gen.Dev) {
			if c.Tick() {
				return
			}
			c.Cur(src)
			c.Inc("reference_parses")
			gs, _, ok := ref.GShape(src)
			if !ok {
				c.Inc("stmt_texts_outside_domain")
				if len(devs) == 0 {
					c.Inc("generator_default_layout_rejected_by_reference")
					c.Note("generator_rejected_example", src)
				}
				return
			}
			c.Inc("programs")
			c.Inc("stmt_programs")
			if len(devs) == 0 {
				if c.Distinct("stmt", want) {
					c.Inc("distinct_valid_token_sequences")
				}
				if gs != want {
					c.Inc("generator_intent_differs_from_reference")
					c.Note("generator_mismatch_example", src+" intended "+want+" reference "+gs)
				}
			}
			_, kd, d := c02Check(src)
			if kd != "" && c.ShrinkOK(kd) {
				pl, _ := json.Marshal(c02Payload{src})
				c.Violate(core.Violation{Kind: kd, Config: "stmt", Case: fmt.Sprintf("%q", src), Detail: d, Payload: pl, Size: len(toks)})
			}
			if c.Count0()%301 == 0 && len(devs) == 1 {
				c.Sample(src)
			}
		})
	})
}
