package props

import (
	"fmt"

	"github.com/xjslang/xjs/ast"
	"github.com/xjslang/xjs/token"

	"xmc/gen"
)

// toXExpr assembles an xjs tree programmatically from a harness tree (public struct fields only).

func tk(t token.Type, lit string) token.Token { return token.Token{Type: t, Literal: lit} }

func xIdent(name string) *ast.Identifier {
	return &ast.Identifier{Token: tk(token.IDENT, name), Value: name}
}

func toXExpr(n *gen.Node) ast.Expression {
	switch n.K {
	case gen.Id:
		return xIdent(n.Op)
	case gen.Num:
		for _, c := range n.Op {
			if c == '.' || ((c == 'e' || c == 'E') && len(n.Op) > 1 && n.Op[1] != 'x' && n.Op[1] != 'X') {
				return &ast.FloatLiteral{Token: tk(token.FLOAT, n.Op)}
			}
		}
		return &ast.IntegerLiteral{Token: tk(token.INT, n.Op)}
	case gen.Str:
		v := n.Op[1 : len(n.Op)-1]
		return &ast.StringLiteral{Token: tk(token.STRING, v), Value: v}
	case gen.Tpl:
		v := n.Op[1 : len(n.Op)-1]
		return &ast.MultiStringLiteral{Token: tk(token.RAW_STRING, v), Value: v}
	case gen.Bool:
		if n.Op == "true" {
			return &ast.BooleanLiteral{Token: tk(token.TRUE, "true"), Value: true}
		}
		return &ast.BooleanLiteral{Token: tk(token.FALSE, "false"), Value: false}
	case gen.Null:
		return &ast.NullLiteral{Token: tk(token.NULL, "null")}
	case gen.Un:
		return &ast.UnaryExpression{Token: tk(punctType[n.Op], n.Op), Operator: n.Op, Right: toXExpr(n.A)}
	case gen.Post:
		return &ast.PostfixExpression{Token: tk(punctType[n.Op], n.Op), Operator: n.Op, Left: toXExpr(n.A)}
	case gen.Bin:
		return &ast.BinaryExpression{Token: tk(punctType[n.Op], n.Op), Operator: n.Op, Left: toXExpr(n.A), Right: toXExpr(n.B)}
	case gen.Asg:
		if n.Op == "=" {
			return &ast.AssignmentExpression{Token: tk(token.ASSIGN, "="), Left: toXExpr(n.A), Value: toXExpr(n.B)}
		}
		return &ast.CompoundAssignmentExpression{Token: tk(punctType[n.Op], n.Op), Operator: n.Op[:1], Left: toXExpr(n.A), Value: toXExpr(n.B)}
	case gen.Call:
		c := &ast.CallExpression{Token: tk(token.LPAREN, "("), Function: toXExpr(n.A), Arguments: []ast.Expression{}}
		for _, a := range n.L {
			c.Arguments = append(c.Arguments, toXExpr(a))
		}
		return c
	case gen.Dot:
		return &ast.MemberExpression{Token: tk(token.DOT, "."), Object: toXExpr(n.A), Property: xIdent(n.Op)}
	case gen.Idx:
		return &ast.MemberExpression{Token: tk(token.LBRACKET, "["), Object: toXExpr(n.A), Property: toXExpr(n.B), Computed: true}
	case gen.Arr:
		a := &ast.ArrayLiteral{Token: tk(token.LBRACKET, "["), RBracket: tk(token.RBRACKET, "]"), Elements: []ast.Expression{}}
		for _, e := range n.L {
			a.Elements = append(a.Elements, toXExpr(e))
		}
		return a
	case gen.Obj:
		o := &ast.ObjectLiteral{Token: tk(token.LBRACE, "{"), RBrace: tk(token.RBRACE, "}"), Properties: []ast.ObjectProperty{}}
		for i := 0; i+1 < len(n.L); i += 2 {
			o.Properties = append(o.Properties, ast.ObjectProperty{Key: toXExpr(n.L[i]), Value: toXExpr(n.L[i+1])})
		}
		return o
	case gen.Fn:
		f := &ast.FunctionExpression{Token: tk(token.FUNCTION, "function"), Parameters: []*ast.Identifier{}, Body: xBlock(n.L)}
		if n.Op != "" {
			f.Name = xIdent(n.Op)
		}
		for _, p := range n.P {
			f.Parameters = append(f.Parameters, xIdent(p))
		}
		return f
	case gen.Grp:
		return &ast.GroupedExpression{Token: tk(token.LPAREN, "("), Expression: toXExpr(n.A), RParen: tk(token.RPAREN, ")")}
	case gen.LetE:
		l := &ast.LetExpression{Token: tk(token.LET, "let"), Name: xIdent(n.Op)}
		if n.A != nil {
			l.Value = toXExpr(n.A)
		}
		return l
	}
	panic(fmt.Sprintf("toXExpr kind %d", n.K))
}

func xBlock(st []*gen.Node) *ast.BlockStatement {
	b := &ast.BlockStatement{Token: tk(token.LBRACE, "{"), RBrace: tk(token.RBRACE, "}"), Statements: []ast.Statement{}}
	for _, s := range st {
		b.Statements = append(b.Statements, toXStmt(s))
	}
	return b
}

func optX(n *gen.Node) ast.Expression {
	if n == nil {
		return nil
	}
	return toXExpr(n)
}

func toXStmt(n *gen.Node) ast.Statement {
	switch n.K {
	case gen.SLet:
		return &ast.LetStatement{Token: tk(token.LET, "let"), Name: xIdent(n.Op), Value: optX(n.A)}
	case gen.SFunc:
		f := &ast.FunctionDeclaration{Token: tk(token.FUNCTION, "function"), Name: xIdent(n.Op), Parameters: []*ast.Identifier{}, Body: xBlock(n.L)}
		for _, p := range n.P {
			f.Parameters = append(f.Parameters, xIdent(p))
		}
		return f
	case gen.SRet:
		return &ast.ReturnStatement{Token: tk(token.RETURN, "return"), ReturnValue: optX(n.A)}
	case gen.SIf:
		s := &ast.IfStatement{Token: tk(token.IF, "if"), Condition: toXExpr(n.A), ThenBranch: toXStmt(n.B)}
		if n.C != nil {
			s.ElseBranch = toXStmt(n.C)
		}
		return s
	case gen.SWhile:
		return &ast.WhileStatement{Token: tk(token.WHILE, "while"), Condition: toXExpr(n.A), Body: toXStmt(n.B)}
	case gen.SFor:
		return &ast.ForStatement{Token: tk(token.FOR, "for"), Init: optX(n.A), Condition: optX(n.B), Update: optX(n.C), Body: toXStmt(n.D)}
	case gen.SBlock:
		return xBlock(n.L)
	case gen.SExpr:
		return &ast.ExpressionStatement{Expression: toXExpr(n.A)}
	}
	panic(fmt.Sprintf("toXStmt kind %d", n.K))
}

func toXProgram(st []*gen.Node) *ast.Program {
	p := &ast.Program{Statements: []ast.Statement{}}
	for _, s := range st {
		p.Statements = append(p.Statements, toXStmt(s))
	}
	return p
}
