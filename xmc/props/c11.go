package props

import (
	"encoding/json"
	"fmt"
	"strings"

	"github.com/xjslang/xjs/ast"
	"github.com/xjslang/xjs/debug"
	"github.com/xjslang/xjs/lexer"
	"github.com/xjslang/xjs/parser"
	"github.com/xjslang/xjs/token"

	"xmc/core"
	"xmc/gen"
	"xmc/ref"
)

// C11: parsing is total and obeys the error contract. Universe: ALL token sequences <= n over the
// 45-lexeme alphabet (valid or not), in two layouts (space / line-feed separated), and all byte strings
// <= 4 over the lexer alphabet; x 4 parser modes; error-free results x every compiler configuration.

type c11Payload struct {
	Src  string `json:"src"`
	Mode int    `json:"mode"`
}

func tokenRanges(src string) map[[4]int]bool {
	m := map[[4]int]bool{}
	defer func() { recover() }()
	l := lexer.NewBuilder().Build(src)
	eofs := 0
	for i := 0; i < 4*len(src)+8 && eofs < 3; i++ {
		t := l.NextToken()
		m[[4]int{t.Start.Line, t.Start.Column, t.End.Line, t.End.Column}] = true
		if t.Type == token.EOF {
			eofs++
		} else {
			eofs = 0
		}
	}
	return m
}

func c11Check(src string, mi int, cfgs []Cfg) (kind, detail string, errFree bool) {
	m := Modes[mi]
	o := parseMode(src, m)
	if o.Panic != "" {
		return "parse-panic", o.Panic, false
	}
	if o.Prog == nil {
		return "nil-program", "ParseProgram returned a nil program", false
	}
	if (o.Err != nil) != (len(o.Errs) > 0) {
		return "error-contract", fmt.Sprintf("err=%v but len(Errors())=%d", o.Err, len(o.Errs)), false
	}
	errFree = o.Err == nil
	if k, d := treeNilCheck(o.Prog, errFree); k != "" {
		return k, d, errFree
	}
	if len(o.Errs) > 0 {
		rs := tokenRanges(src)
		for i, e := range o.Errs {
			r := [4]int{e.Range.Start.Line, e.Range.Start.Column, e.Range.End.Line, e.Range.End.Column}
			if !rs[r] {
				return "error-range", fmt.Sprintf("error %d %q has range %v which is not the range of any token of the input", i, e.Message, r), false
			}
		}
		return "", "", false
	}
	for _, c := range cfgs {
		if co := compileCfg(o.Prog, c); co.Panic != "" {
			return "compile-panic", c.String() + ": " + co.Panic, true
		}
	}
	func() {
		defer func() {
			if r := recover(); r != nil {
				kind, detail = "tostring-panic", panicText(r)
			}
		}()
		_ = debug.ToString(o.Prog)
	}()
	return kind, detail, true
}

func c11Violation(idx []int, sep string, mi int, cfgs []Cfg) core.Violation {
	fails := func(x []int) bool { k, _, _ := c11Check(gen.Join(gen.T, x, sep), mi, cfgs); return k != "" }
	sh := core.ShrinkSeq(idx, gen.Simpler, fails)
	src := gen.Join(gen.T, sh, sep)
	k, d, _ := c11Check(src, mi, cfgs)
	pl, _ := json.Marshal(c11Payload{src, mi})
	return core.Violation{Kind: k, Config: Modes[mi].String(), Case: fmt.Sprintf("%q", src), Detail: d, Payload: pl, Size: len(sh)}
}

// c11Plugin: the error contract with errors that a PLUGIN reports through the public AddError /
// AddErrorAtToken (a statement interceptor that rejects the identifier `bad`, an expression interceptor that
// rejects the number 13): err is returned iff the error list is non-empty, the list contains exactly one
// plugin error per rejection with the range of the rejected token, the parser goes on and the tree is intact.
func c11PluginOne(src string, mi int) (kind, detail string) {
	{
		pb := newPB(Modes[mi])
		var rejected [][4]int
		pb.UseStatementInterceptor(func(p *parser.Parser, next func() ast.Statement) ast.Statement {
			if t := p.CurrentToken; t.Type == token.IDENT && t.Literal == "bad" {
				p.AddErrorAtToken("plugin: bad statement", t)
				rejected = append(rejected, [4]int{t.Start.Line, t.Start.Column, t.End.Line, t.End.Column})
			}
			return next()
		})
		pb.UseExpressionInterceptor(func(p *parser.Parser, next func() ast.Expression) ast.Expression {
			if t := p.CurrentToken; t.Type == token.INT && t.Literal == "13" {
				p.AddErrorAtToken("plugin: unlucky number", t)
				rejected = append(rejected, [4]int{t.Start.Line, t.Start.Column, t.End.Line, t.End.Column})
			}
			return next()
		})
		o := parseWith(pb, src)
		if o.Panic != "" {
			return "parse-panic", o.Panic
		}
		if (o.Err != nil) != (len(o.Errs) > 0) {
			return "error-contract", fmt.Sprintf("err=%v but len(Errors())=%d", o.Err, len(o.Errs))
		}
		var got [][4]int
		for _, e := range o.Errs {
			if strings.HasPrefix(e.Message, "plugin: ") {
				got = append(got, [4]int{e.Range.Start.Line, e.Range.Start.Column, e.Range.End.Line, e.Range.End.Column})
			}
		}
		if fmt.Sprint(got) != fmt.Sprint(rejected) {
			return "plugin-errors", fmt.Sprintf("the plugin reported errors at %v (in this order); Errors() lists plugin errors at %v", rejected, got)
		}
		if len(rejected) > 0 && o.Err == nil {
			return "plugin-error-lost", "the plugin reported an error, ParseProgram returned no error"
		}
		if k, d := treeNilCheck(o.Prog, false); k != "" {
			return k, d
		}
		// the same input without the plugin's rejections: same tree, and the library's own errors are the rest
		plain := parseMode(src, Modes[mi])
		if plain.Panic == "" {
			if dumpTree(plain.Prog) != dumpTree(o.Prog) {
				return "plugin-error-changes-tree", fmt.Sprintf("tree with the reporting plugin %s, without %s", ref.XStmts(o.Prog.Statements), ref.XStmts(plain.Prog.Statements))
			}
			if len(o.Errs)-len(got) != len(plain.Errs) {
				return "plugin-error-changes-errors", fmt.Sprintf("%d library errors with the reporting plugin, %d without", len(o.Errs)-len(got), len(plain.Errs))
			}
		}
		return "", ""
	}
}

// c11PlugLangOne: the error contract on the plugin language (pluglang.go): the errors come from the plugin's
// ExpectToken / ExpectSemicolonASI calls and from the library parsing what the plugin asked it to parse.
func c11PlugLangOne(src string, mi int, cfgs []Cfg) (kind, detail string) {
	o := parseWith(plugLangPB(Modes[mi]), src)
	if o.Panic != "" {
		return "parse-panic", o.Panic
	}
	if o.Prog == nil {
		return "nil-program", "ParseProgram returned a nil program"
	}
	if (o.Err != nil) != (len(o.Errs) > 0) {
		return "error-contract", fmt.Sprintf("err=%v but len(Errors())=%d", o.Err, len(o.Errs))
	}
	if k, d := treeNilCheck(o.Prog, false); k != "" {
		return k, d
	}
	if len(o.Errs) > 0 {
		rs := tokenRanges(src)
		for i, e := range o.Errs {
			r := [4]int{e.Range.Start.Line, e.Range.Start.Column, e.Range.End.Line, e.Range.End.Column}
			if !rs[r] {
				return "error-range", fmt.Sprintf("error %d %q has range %v which is not the range of any token of the input", i, e.Message, r)
			}
		}
		return "", ""
	}
	// error-free: the plugin's nodes have what the plugin asked for, and every configuration compiles
	var bad string
	var walk func(v any)
	walk = func(v any) {
		if n, ok := v.(*pStmt); ok && n != nil {
			switch {
			case n.Kind == "unless" && (isNilNode(n.Cond) || isNilNode(n.Body)):
				bad = "UNLESS statement without condition or body"
			case n.Kind == "loop" && n.Block == nil:
				bad = "LOOP statement without block"
			case n.Kind == "emit" && isNilNode(n.Cond):
				bad = "EMIT statement without expression"
			}
			if !isNilNode(n.Body) {
				walk(n.Body)
			}
			if n.Block != nil {
				for _, s := range n.Block.Statements {
					walk(s)
				}
			}
		}
	}
	for _, s := range o.Prog.Statements {
		walk(s)
	}
	if bad != "" {
		return "missing-child", "no error reported, but the plugin obtained a nil node from the parser: " + bad
	}
	for _, c := range cfgs {
		if co := compileCfg(o.Prog, c); co.Panic != "" {
			return "compile-panic", c.String() + ": " + co.Panic
		}
	}
	return "", ""
}

// c11PlugLang: all token sequences <= 3 (4 thorough) over the plugin-language alphabet that contain a plugin
// keyword, in two joinings, and every prefix and single-token deletion of the well-formed plugin-language
// programs, in all four modes.
func c11PlugLang(c *core.Ctx) {
	cfgs := Cfgs(false, true)
	if len(cfgs) > 6 {
		cfgs = cfgs[:6]
	}
	run := func(src string, size int) {
		c.Cur(src)
		c.Inc("inputs")
		c.Inc("plugin_language_inputs")
		for mi := range Modes {
			c.Inc("parses")
			if k, d := c11PlugLangOne(src, mi, cfgs); k != "" && c.ShrinkOK("pl"+k) {
				pl, _ := json.Marshal(c11Payload{src, mi + 200})
				c.Violate(core.Violation{Kind: k, Config: Modes[mi].String() + ", plugin language", Case: fmt.Sprintf("%q", src), Detail: d, Payload: pl, Size: size})
			}
		}
	}
	n := 3
	if c.Thorough() {
		n = 4
	}
	A := plugLangAlphabet
	for L := 1; L <= n; L++ {
		gen.EachSeq(len(A), L, func(idx []int) bool {
			if !c.Next() {
				return true
			}
			if c.Tick() {
				return false
			}
			has := false
			for _, x := range idx {
				if x >= 1 && x <= 3 {
					has = true
				}
			}
			if !has {
				return true
			}
			run(gen.Join(A, idx, " "), L)
			if L >= 2 {
				run(gen.Join(A, idx, "\n"), L)
			}
			return true
		})
	}
	for i, src := range plugLangPrograms(c.Thorough()) {
		if !c.Mine(int64(i)) || c.Tick() {
			continue
		}
		run(src, 50)
		if strings.Contains(src, "//") {
			continue
		}
		toks := strings.Fields(src)
		for k := 1; k < len(toks); k++ {
			run(strings.Join(toks[:k], " "), 50)
		}
		for k := range toks {
			run(strings.Join(append(append([]string{}, toks[:k]...), toks[k+1:]...), " "), 50)
		}
	}
}

func c11Plugin(c *core.Ctx) {
	check := c11PluginOne
	alpha := append(append([]string{}, gen.T...), "bad", "13")
	n := 3
	if c.Thorough() {
		n = 4
	}
	for L := 1; L <= n; L++ {
		gen.EachSeq(len(alpha), L, func(idx []int) bool {
			if !c.Next() {
				return true
			}
			if c.Tick() {
				return false
			}
			has := false
			for _, x := range idx {
				if x >= len(gen.T) {
					has = true
				}
			}
			if !has {
				return true
			}
			for _, sep := range []string{" ", "\n"} {
				src := gen.Join(alpha, idx, sep)
				c.Cur(src)
				c.Inc("inputs")
				c.Inc("plugin_error_inputs")
				for mi := range Modes {
					c.Inc("parses")
					if k, d := check(src, mi); k != "" && c.ShrinkOK("plug"+k) {
						pl, _ := json.Marshal(c11Payload{src, mi + 100})
						c.Violate(core.Violation{Kind: k, Config: Modes[mi].String() + ", error-reporting plugin", Case: fmt.Sprintf("%q", src), Detail: d, Payload: pl, Size: L})
					}
				}
			}
			return true
		})
	}
}

func c11Run(c *core.Ctx) {
	processWarmup(c)
	c11Plugin(c)
	c11PlugLang(c)
	n := 4
	if c.Thorough() {
		n = 5
	}
	cfgs := Cfgs(c.Thorough(), true)
	c.Note("compiler_configurations", fmt.Sprint(len(cfgs)))
	seps := []string{" ", "\n"}
	for L := 0; L <= n; L++ {
		gen.EachSeq(len(gen.T), L, func(idx []int) bool {
			if !c.Next() {
				return true
			}
			if c.Tick() {
				return false
			}
			for si, sep := range seps {
				if si > 0 && (L < 2 || L == n) {
					continue // line-feed layout up to n-1
				}
				src := gen.Join(gen.T, idx, sep)
				c.Cur(src)
				c.Inc("inputs")
				anyFree := false
				for mi := range Modes {
					if L == 5 && (mi == 1 || mi == 2) {
						continue // n=5: the two extreme mode combinations
					}
					c.Inc("parses")
					k, _, free := c11Check(src, mi, cfgs)
					if free {
						anyFree = true
						c.Count("compilations", int64(len(cfgs)))
					}
					if k != "" && c.ShrinkOK(k) {
						c.Violate(c11Violation(append([]int{}, idx...), sep, mi, cfgs))
					}
				}
				if anyFree {
					c.Inc("error_free_inputs")
				} else {
					c.Inc("rejected_inputs")
				}
				if c.Count0()%400009 == 0 {
					c.Sample(src)
				}
			}
			return true
		})
		if !c.Expired() {
			c.SetMax("token_length_completed", int64(L))
		}
	}
	// statement-keyword class alphabet at lengths 5 and 6 (the full alphabet stops at n): the shortest malformed
	// inputs that put a declaration keyword into a brace-less body, an unfinished header or an open bracket
	{
		K := []string{"a", "(", ")", "{", "}", ";", "=", "if", "else", "let", "function", "while", ","}
		maxL := 6
		modes := []int{0, 3}
		if c.Thorough() {
			maxL = 7
		}
		for L := 5; L <= maxL; L++ {
			gen.EachSeq(len(K), L, func(idx []int) bool {
				if !c.Next() {
					return true
				}
				if c.Tick() {
					return false
				}
				src := gen.Join(K, idx, " ")
				c.Cur(src)
				c.Inc("inputs")
				c.Inc("keyword_class_inputs")
				free := false
				for _, mi := range modes {
					c.Inc("parses")
					k, d, f := c11Check(src, mi, cfgs[:4])
					free = free || f
					if k != "" && c.ShrinkOK("kw"+k) {
						fails := func(x []int) bool { kk, _, _ := c11Check(gen.Join(K, x, " "), mi, cfgs[:4]); return kk == k }
						sh := core.ShrinkSeq(append([]int{}, idx...), nil, fails)
						s2 := gen.Join(K, sh, " ")
						if kk, dd, _ := c11Check(s2, mi, cfgs[:4]); kk == k {
							d = dd
						} else {
							s2 = src
						}
						pl, _ := json.Marshal(c11Payload{s2, mi})
						c.Violate(core.Violation{Kind: k, Config: Modes[mi].String(), Case: fmt.Sprintf("%q", s2), Detail: d, Payload: pl, Size: len(sh)})
					}
				}
				if free {
					c.Inc("error_free_inputs")
				} else {
					c.Inc("rejected_inputs")
				}
				return true
			})
		}
	}
	// literals at the edge of the numeric range and long lexemes: all sequences <= 3 (4 thorough) over a
	// second alphabet (the main alphabet has one lexeme per literal kind)
	N := []string{"9223372036854775808", "1e999", "0xffffffffffffffffff", "5e-324", "a", "+", "(", ")", "[", "]", ",", "=", "let", ".", "1", "'\\u{0000041}'", "return", "{", "}", ":"}
	nl := 3
	if c.Thorough() {
		nl = 4
	}
	for L := 1; L <= nl; L++ {
		gen.EachSeq(len(N), L, func(idx []int) bool {
			if !c.Next() {
				return true
			}
			if c.Tick() {
				return false
			}
			src := gen.Join(N, idx, " ")
			c.Cur(src)
			c.Inc("inputs")
			c.Inc("numeric_edge_inputs")
			free := false
			for mi := range Modes {
				c.Inc("parses")
				k, d, f := c11Check(src, mi, cfgs)
				free = free || f
				if k != "" && c.ShrinkOK(k) {
					fails := func(x []int) bool { kk, _, _ := c11Check(gen.Join(N, x, " "), mi, cfgs); return kk == k }
					sh := core.ShrinkSeq(append([]int{}, idx...), nil, fails)
					s2 := gen.Join(N, sh, " ")
					if kk, dd, _ := c11Check(s2, mi, cfgs); kk == k {
						d = dd
					} else {
						s2 = src
					}
					pl, _ := json.Marshal(c11Payload{s2, mi})
					c.Violate(core.Violation{Kind: k, Config: Modes[mi].String(), Case: fmt.Sprintf("%q", s2), Detail: d, Payload: pl, Size: len(sh)})
				}
			}
			if free {
				c.Inc("error_free_inputs")
			} else {
				c.Inc("rejected_inputs")
			}
			return true
		})
	}
	// programs being typed: every token prefix and every single-token deletion of every program of the
	// statement families and of the nesting chains (depth <= 2), in a one-line and a line-per-token layout,
	// in all four modes
	{
		level := 1
		if c.Thorough() {
			level = 2
		}
		edits := func(prog []*gen.Node) {
			toks := gen.UnparseProgram(prog, false)
			if len(toks) > 40 {
				return
			}
			texts := make([]string, len(toks))
			for i, t := range toks {
				texts[i] = t.Text
			}
			try := func(parts []string, what string) {
				for si, sep := range []string{" ", "\n"} {
					if si == 1 && len(parts) > 16 {
						continue
					}
					src := strings.Join(parts, sep)
					c.Cur(src)
					c.Inc("inputs")
					c.Inc("edited_program_inputs")
					for mi := range Modes {
						c.Inc("parses")
						k, d, free := c11Check(src, mi, cfgs[:4])
						if free {
							c.Inc("edited_program_error_free")
						}
						if k != "" && c.ShrinkOK("edit"+k+Modes[mi].String()) {
							pl, _ := json.Marshal(c11Payload{src, mi})
							c.Violate(core.Violation{Kind: k, Config: Modes[mi].String(), Case: fmt.Sprintf("%q (%s)", src, what), Detail: core.Short(d, 600), Payload: pl, Size: len(parts)})
						}
					}
				}
			}
			for cut := 1; cut < len(texts); cut++ {
				try(texts[:cut], "prefix of a valid program")
			}
			for del := 0; del < len(texts); del++ {
				try(append(append([]string{}, texts[:del]...), texts[del+1:]...), "valid program with one token deleted")
			}
			// what tolerant mode is for: statements on one line without a separator. The program with every
			// semicolon dropped, and with each single one dropped, whole and at every prefix
			var semis []int
			for i, t := range texts {
				if t == ";" {
					semis = append(semis, i)
				}
			}
			drop := func(which map[int]bool) []string {
				var out []string
				for i, t := range texts {
					if !which[i] {
						out = append(out, t)
					}
				}
				return out
			}
			var variants [][]string
			if len(semis) > 0 {
				all := map[int]bool{}
				for _, i := range semis {
					all[i] = true
				}
				variants = append(variants, drop(all))
				if len(semis) > 1 && len(semis) <= 6 {
					for _, i := range semis {
						variants = append(variants, drop(map[int]bool{i: true}))
					}
				}
			}
			for _, v := range variants {
				for cut := 1; cut <= len(v); cut++ {
					try(v[:cut], "prefix of a valid program with semicolons dropped")
				}
			}
			// one token replaced by each lexeme of a class alphabet
			if len(texts) <= 24 {
				for i := range texts {
					for _, sub := range c16Subst {
						if sub == texts[i] {
							continue
						}
						v := append([]string{}, texts...)
						v[i] = sub
						c.Inc("substituted_program_inputs")
						try(v, "valid program with one token replaced")
					}
				}
			}
		}
		gen.Programs(level, func(prog []*gen.Node, name string) {
			if !c.Next() || c.Tick() {
				return
			}
			edits(prog)
		})
		gen.NestChains(gen.Nesters(true), 2, func(prog []*gen.Node, name string) {
			if !c.Next() || c.Tick() {
				return
			}
			edits(prog)
		})
	}
	// scale family, intact and truncated at a few points (deep recursion on error paths)
	for i, sp := range gen.Scale(c.Thorough()) {
		if !c.Mine(int64(i)) || c.Tick() {
			continue
		}
		for _, cut := range []int{len(sp.Src), len(sp.Src) / 2, len(sp.Src) - 1, len(sp.Src) / 3} {
			src := sp.Src[:cut]
			c.Cur(sp.Name)
			c.Inc("inputs")
			c.Inc("scale_inputs")
			for mi := range Modes {
				c.Inc("parses")
				k, d, _ := c11Check(src, mi, cfgs[:4])
				if k != "" && c.ShrinkOK("scale"+k) {
					pl, _ := json.Marshal(c11Payload{src, mi})
					c.Violate(core.Violation{Kind: k, Config: Modes[mi].String(), Case: fmt.Sprintf("%s[:%d]", sp.Name, cut), Detail: core.Short(d, 600), Payload: pl, Size: 1000 + cut})
				}
			}
		}
	}
	// byte strings <= 4
	A := lexAlphabet
	for L := 1; L <= 4; L++ {
		gen.EachSeq(len(A), L, func(idx []int) bool {
			if !c.Next() {
				return true
			}
			if c.Tick() {
				return false
			}
			b := make([]byte, L)
			for i, x := range idx {
				b[i] = A[x]
			}
			src := string(b)
			c.Cur(src)
			c.Inc("inputs")
			c.Inc("byte_inputs")
			for mi := range Modes {
				c.Inc("parses")
				k, d, _ := c11Check(src, mi, cfgs)
				if k != "" && c.ShrinkOK(k) {
					fails := func(x []int) bool {
						bb := make([]byte, len(x))
						for i, y := range x {
							bb[i] = A[y]
						}
						kk, _, _ := c11Check(string(bb), mi, cfgs)
						return kk != ""
					}
					sh := core.ShrinkSeq(append([]int{}, idx...), gen.Simpler, fails)
					bb := make([]byte, len(sh))
					for i, y := range sh {
						bb[i] = A[y]
					}
					k, d, _ = c11Check(string(bb), mi, cfgs)
					pl, _ := json.Marshal(c11Payload{string(bb), mi})
					c.Violate(core.Violation{Kind: k, Config: Modes[mi].String(), Case: fmt.Sprintf("%q", bb), Detail: d, Payload: pl, Size: len(bb)})
				}
			}
			return true
		})
	}
}

func c11Replay(pl json.RawMessage) (string, []core.Violation) {
	var p c11Payload
	json.Unmarshal(pl, &p)
	if p.Mode >= 200 {
		k, d := c11PlugLangOne(p.Src, p.Mode-200, Cfgs(false, true))
		out := fmt.Sprintf("source %q mode %s, plugin language", p.Src, Modes[p.Mode-200])
		if k != "" {
			return out, []core.Violation{{Kind: k, Config: Modes[p.Mode-200].String() + ", plugin language", Case: fmt.Sprintf("%q", p.Src), Detail: d}}
		}
		return out, nil
	}
	if p.Mode >= 100 {
		k, d := c11PluginOne(p.Src, p.Mode-100)
		out := fmt.Sprintf("source %q mode %s, error-reporting plugin", p.Src, Modes[p.Mode-100])
		if k != "" {
			return out, []core.Violation{{Kind: k, Config: Modes[p.Mode-100].String() + ", error-reporting plugin", Case: fmt.Sprintf("%q", p.Src), Detail: d}}
		}
		return out, nil
	}
	k, d, free := c11Check(p.Src, p.Mode, Cfgs(true, true))
	out := fmt.Sprintf("source %q mode %s error-free=%v", p.Src, Modes[p.Mode], free)
	if k != "" {
		return out, []core.Violation{{Kind: k, Config: Modes[p.Mode].String(), Case: fmt.Sprintf("%q", p.Src), Detail: d}}
	}
	return out, nil
}

func init() {
	core.Register(&core.PropSpec{
		ID: "C11", Level: "exploration",
		Rule:     "ALL token sequences of length 0..n (n=4 quick, 5 thorough) over the 45-lexeme alphabet (identifiers, literals, every keyword, operator and delimiter), valid or not, space-separated (and line-feed-separated up to n-1; at n=5 in the modes strict and tolerant+smart only), plus all byte strings <=4 over the 26-byte lexer alphabet; each parsed in the 4 mode combinations; oracle: no panic, err<=>Errors(), no nil/typed-nil entry in any statement list (reflective walk), every error range equals the range of a token of a fresh lexer run, and for error-free results all mandatory children present and every compiler configuration + debug.ToString run without panic. non-trivial = input accepted without error in at least one mode (reaches tree + compiler checks) — rejected inputs are counted separately Added: all sequences <= 3 (4 thorough) over a second 20-lexeme alphabet with range-edge numeric literals and a long escape; the scale family intact and truncated at 3 points; programs being typed: every token prefix and every single-token deletion of every program of the statement families and nesting chains, and every prefix of those programs with all / each single semicolon dropped (the inputs tolerant mode exists for), and every single-token substitution by each of 22 class lexemes, in two layouts and all modes; all sequences of length 5..6 (7 thorough) over a 13-lexeme statement-keyword class alphabet in the modes strict and tolerant+smart; error-reporting plugin: all token sequences <= 3 (4 thorough) that contain `bad` or 13, with interceptors that report them through AddErrorAtToken: err iff errors, one plugin error per rejection with the token's range, same tree and same library errors as without the plugin. Plugin language (round 12): the error contract on the subset extended by three statement kinds that a plugin parses with the exported parser methods (ExpectToken, NextToken, ParseExpression, ParseExpressionWithPrecedence, ParseStatement, ParseBlockStatement, ExpectSemicolonASI) on registered keyword token types: all token sequences <= 3 (4) containing a plugin keyword, every prefix and single-token deletion of 400 well-formed plugin-language programs, 4 modes.",
		Assume:   []string{"stack exhaustion on very deep nesting is out of scope (bounded length)"},
		QuickSec: 300, ThorSec: 2400, Run: c11Run, Replay: c11Replay,
		Evals: "inputs", Nontriv: "error_free_inputs",
	})
}
