package props

import (
	"github.com/xjslang/xjs/ast"
	"github.com/xjslang/xjs/lexer"
	"github.com/xjslang/xjs/parser"
	"github.com/xjslang/xjs/token"
)

// The plugin language: the subset extended by three statement kinds that a plugin parses ITSELF with the
// exported parser methods (ExpectToken, NextToken, ParseExpression, ParseExpressionWithPrecedence,
// ParseStatement, ParseBlockStatement, ExpectSemicolonASI) and prints through the exported CodeWriter methods:
//
//	UNLESS ( E ) S      ->  if (!(E)) S
//	LOOP { ... }        ->  while (true) { ... }
//	EMIT E ;            ->  print(E);
//
// The spellings are identifiers retyped by a token interceptor into registered token types (the way the
// repository's own examples introduce keywords). Nothing here mirrors library internals: the oracles that use
// this language are the properties themselves (interception is transparent and ordered for the statements and
// expressions the plugin asks the parser to parse; the error contract holds when the errors come from the
// plugin's ExpectToken calls), never "the plugin statement behaves like a built-in statement".

type plugTypes struct{ unless, loop, emit token.Type }

type pStmt struct {
	Kind  string
	Token token.Token
	Cond  ast.Expression
	Body  ast.Statement
	Block *ast.BlockStatement
}

func (n *pStmt) WriteTo(cw *ast.CodeWriter) {
	cw.WriteLeadingComments(n.Token.LeadingComments)
	cw.AddMapping(n.Token.Start)
	switch n.Kind {
	case "unless":
		cw.WriteString("if")
		cw.WriteSpace()
		cw.WriteString("(!(")
		if n.Cond != nil {
			n.Cond.WriteTo(cw)
		}
		cw.WriteString("))")
		cw.WriteSpace()
		if !isNilNode(n.Body) {
			n.Body.WriteTo(cw)
		}
	case "loop":
		cw.WriteString("while")
		cw.WriteSpace()
		cw.WriteString("(true)")
		cw.WriteSpace()
		if n.Block != nil {
			n.Block.WriteTo(cw)
		}
	case "emit":
		cw.WriteString("print")
		cw.WriteRune('(')
		if n.Cond != nil {
			n.Cond.WriteTo(cw)
		}
		cw.WriteRune(')')
		cw.WriteSemi()
	}
}

// plugLangLexer registers the three token types on the lexer builder and retypes the spellings.
func plugLangLexer(lb *lexer.Builder) plugTypes {
	ty := plugTypes{lb.RegisterTokenType("kw_unless"), lb.RegisterTokenType("kw_loop"), lb.RegisterTokenType("kw_emit")}
	lb.UseTokenInterceptor(func(l *lexer.Lexer, next func() token.Token) token.Token {
		t := next()
		if t.Type == token.IDENT {
			switch t.Literal {
			case "UNLESS":
				t.Type = ty.unless
			case "LOOP":
				t.Type = ty.loop
			case "EMIT":
				t.Type = ty.emit
			}
		}
		return t
	})
	return ty
}

// plugLangStatements installs the statement interceptor that parses the three statement kinds.
func plugLangStatements(pb *parser.Builder, ty plugTypes) {
	pb.UseStatementInterceptor(func(p *parser.Parser, next func() ast.Statement) ast.Statement {
		t := p.CurrentToken
		switch t.Type {
		case ty.unless:
			n := &pStmt{Kind: "unless", Token: t}
			if !p.ExpectToken(token.LPAREN) {
				return nil
			}
			p.NextToken()
			n.Cond = p.ParseExpression()
			if !p.ExpectToken(token.RPAREN) {
				return nil
			}
			p.NextToken()
			n.Body = p.ParseStatement()
			return n
		case ty.loop:
			n := &pStmt{Kind: "loop", Token: t}
			if !p.ExpectToken(token.LBRACE) {
				return nil
			}
			n.Block = p.ParseBlockStatement()
			return n
		case ty.emit:
			n := &pStmt{Kind: "emit", Token: t}
			p.NextToken()
			n.Cond = p.ParseExpressionWithPrecedence(parser.LOWEST)
			if !p.ExpectSemicolonASI() {
				return nil
			}
			return n
		}
		return next()
	})
}

// plugLangPB: a builder of the plugin language in mode m.
func plugLangPB(m Mode) *parser.Builder {
	if pbPlugLang {
		return newPB(m)
	}
	pb := newPB(m)
	plugLangStatements(pb, plugLangLexer(pb.LexerBuilder))
	return pb
}

// plugLangPrograms: well-formed programs of the plugin language (statement bodies x conditions x frames).
func plugLangPrograms(full bool) []string {
	conds := []string{"a", "a + b", "f ( a )", "! a", "a = b", "function ( ) { return a ; } ( )"}
	bodies := []string{"a ;", "{ a ; }", "{ }", "EMIT a ;", "EMIT a + b", "UNLESS ( b ) c ;", "LOOP { a ; }", "if ( a ) b ; else c ;",
		"let x = a ;", "{ let x = a ; EMIT x ; }", "function g ( ) { EMIT a ; return a ; }", "x = function ( ) { UNLESS ( a ) return b ; } ;", "while ( a ) EMIT b ;"}
	if !full {
		conds = conds[:4]
	}
	var out []string
	for _, b := range bodies {
		out = append(out, b, "LOOP { "+b+" }", "LOOP { "+b+" "+b+" } z ;", "function g ( ) { "+b+" }", "u ; "+b+" v ;", "// c\n"+b+"\n\n// d\n"+b)
		for _, cnd := range conds {
			out = append(out, "UNLESS ( "+cnd+" ) "+b, "if ( "+cnd+" ) UNLESS ( "+cnd+" ) "+b+" else "+b, "EMIT "+cnd+"\n"+b, "EMIT "+cnd+" ; "+b)
		}
	}
	return out
}

var plugLangAlphabet = []string{"a", "UNLESS", "LOOP", "EMIT", "(", ")", "{", "}", ";", "=", "+", "let", "if", "else", "return", "function", "1", ","}
