package props

import (
	"encoding/json"

	"fmt"
	"github.com/xjslang/xjs/ast"
	"github.com/xjslang/xjs/parser"
	"github.com/xjslang/xjs/token"
	"os"
	"strings"
	"unicode/utf16"
	"unicode/utf8"

	"xmc/core"
	"xmc/gen"
	"xmc/ref"
)

// C08: source map segments link identical lexemes. The emitted mappings are decoded by the independent
// Source Map v3 decoder (ref/rmap.go); the independent tokenizer R-tok says which token starts at a
// position of the generated code and of the source.

type c08Payload struct {
	Src string `json:"src"`
	Cfg int    `json:"cfg"`
	Sep int    `json:"plugin_sep,omitempty"` // 1 + index of the separator a plugin node writes (0: no plugin)
}

var c08Cfgs = func() []Cfg {
	out := []Cfg{{Map: true}}
	out = append(out, Cfg{Pretty: true, Indent: -2, Semi: -1, Map: true})
	for ind := -1; ind <= 8; ind++ {
		for semi := 0; semi <= 1; semi++ {
			out = append(out, Cfg{Pretty: true, Indent: ind, Semi: semi, Map: true})
		}
	}
	return out
}()

// quick tier: compact + 4 pretty option sets
var c08Quick = []int{0, 1, 2, 4, 7, 20}

// lineStart returns the byte offset at which line `line` starts; generated code follows the line model the
// source-map builder is specified with (C09: LF, CRLF and a lone CR are one line break each), source text
// the lexer's model (LF).
func lineStart(text string, line int, crBreaks bool) int {
	off := 0
	for l := 0; l < line; l++ {
		i := off
		for i < len(text) && text[i] != '\n' && !(crBreaks && text[i] == '\r') {
			i++
		}
		if i >= len(text) {
			return -1
		}
		if text[i] == '\r' && i+1 < len(text) && text[i+1] == '\n' {
			i++
		}
		off = i + 1
	}
	return off
}

// colToOffset converts (line, col) to a byte offset where col is counted in UTF-16 units (unit=16) or
// bytes (unit=8).
func colToOffset(text string, line, col, unit int, crBreaks bool) int {
	off := lineStart(text, line, crBreaks)
	if off < 0 || col < 0 {
		return -1
	}
	units := 0
	for i := off; ; {
		if units == col {
			return i
		}
		if i >= len(text) || text[i] == '\n' || (crBreaks && text[i] == '\r') || units > col {
			return -1
		}
		if unit == 8 {
			units++
			i++
			continue
		}
		r, sz := utf8.DecodeRuneInString(text[i:])
		units += len(utf16.Encode([]rune{r}))
		i += sz
	}
}

func tokIndex(toks []ref.RTok) map[int]*ref.RTok {
	m := map[int]*ref.RTok{}
	for i := range toks {
		if toks[i].Kind != ref.TEOF {
			m[toks[i].Off] = &toks[i]
		}
	}
	return m
}

func sameLexeme(a, b *ref.RTok) bool {
	if a.Kind != b.Kind {
		return false
	}
	switch a.Kind {
	case ref.TString:
		if a.Text[0] == b.Text[0] {
			return a.Text == b.Text || true // the printer may re-escape; same kind is what the property asks ("quote style aside")
		}
		return true
	case ref.TTemplate:
		return true
	}
	return a.Text == b.Text
}

func c08Check(src string, cfg Cfg) (kind, detail string, nseg int, accepted bool) {
	return c08CheckTree(parseMode(src, Mode{}), src, cfg)
}

// c08Wrap is a plugin expression node: it writes its operand in parentheses, followed by a separator that
// goes through one of the writer's public methods (the position tracker has to follow each of them).
type c08Wrap struct {
	E   ast.Expression
	Sep int
}

var c08SepNames = []string{"WriteRune('\\n')", "WriteString(\"\\n\")", "WriteNewline()", "WriteRune(' ')", "WriteString(\"  \")", "WriteSpace()", "WriteString(\"\\n\\n  \")", "nothing"}

func (n *c08Wrap) WriteTo(cw *ast.CodeWriter) {
	cw.WriteRune('(')
	n.E.WriteTo(cw)
	switch n.Sep {
	case 0:
		cw.WriteRune('\n')
	case 1:
		cw.WriteString("\n")
	case 2:
		cw.WriteNewline()
	case 3:
		cw.WriteRune(' ')
	case 4:
		cw.WriteString("  ")
	case 5:
		cw.WriteSpace()
	case 6:
		cw.WriteString("\n\n  ")
	}
	cw.WriteRune(')')
}
func (n *c08Wrap) Precedence() int { return ast.PrecedenceAtomic }

// c08PluginPB: an expression interceptor wraps every operand that starts with the identifier h.
func c08PluginPB(sep int) *parser.Builder {
	pb := newPB(Mode{})
	pb.UseExpressionInterceptor(func(p *parser.Parser, next func() ast.Expression) ast.Expression {
		hit := p.CurrentToken.Type == token.IDENT && p.CurrentToken.Literal == "h"
		e := next()
		if hit && !isNilNode(e) {
			return &c08Wrap{E: e, Sep: sep}
		}
		return e
	})
	return pb
}

var c08PluginSrcs = []string{"x = h + 1;\ny = f(h, b)\nz = h", "let q = h\nlet r = [h, 2, h.p]\nprint(q, r)", "function g(h) {\n  if (h) { return h * 2 }\n  return [h]\n}\ng(h)", "h"}

func c08CheckTree(o ParseOut, src string, cfg Cfg) (kind, detail string, nseg int, accepted bool) {
	if o.Panic != "" || o.Err != nil {
		return "", "", 0, false
	}
	srcToks, err := ref.Tokenize(src)
	if err != nil {
		return "", "", 0, false
	}
	co := compileCfg(o.Prog, cfg)
	if co.Panic != "" {
		return "panic", co.Panic, 0, true
	}
	if co.Map == nil {
		return "no-map", "a source map was requested, CompileResult.SourceMap is nil", 0, true
	}
	outToks, err := ref.Tokenize(co.Code)
	if err != nil {
		return "", "", 0, true // output unreadable for the reference tokenizer: C01/C06's business
	}
	segs, err := ref.DecodeMappings(co.Map.Mappings)
	if err != nil {
		return "undecodable", fmt.Sprintf("mappings %q: %v", co.Map.Mappings, err), 0, true
	}
	if co.Map.Version != 3 {
		return "version", fmt.Sprintf("version %d", co.Map.Version), 0, true
	}
	si, oi := tokIndex(srcToks), tokIndex(outToks)
	covered := map[int]string{}
	ctx := func() string {
		return fmt.Sprintf("code %q mappings %q names %q", co.Code, co.Map.Mappings, co.Map.Names)
	}
	prevL, prevC := -1, -1
	for i, s := range segs {
		if s.GenLine < prevL || (s.GenLine == prevL && s.GenCol < prevC) {
			return "unordered", fmt.Sprintf("segment %d (%s) lies before segment %d; %s", i, s, i-1, ctx()), len(segs), true
		}
		prevL, prevC = s.GenLine, s.GenCol
		if !s.HasSrc {
			return "segment-without-source", fmt.Sprintf("segment %d (%s); %s", i, s, ctx()), len(segs), true
		}
		if s.Src != 0 {
			return "source-index", fmt.Sprintf("segment %d (%s) refers to source file %d; %s", i, s, s.Src, ctx()), len(segs), true
		}
		var lastK, lastD string
		ok := false
		for _, unit := range []int{16, 8} {
			k, d := func() (string, string) {
				gOff := colToOffset(co.Code, s.GenLine, s.GenCol, unit, true)
				if gOff < 0 {
					return "generated-position-outside", fmt.Sprintf("segment %d (%s): no such position in the generated code; %s", i, s, ctx())
				}
				tg := oi[gOff]
				if tg == nil {
					return "generated-position-not-a-token", fmt.Sprintf("segment %d (%s): no token of the generated code starts there (offset %d, text there %q); %s", i, s, gOff, core.Short(co.Code[gOff:], 12), ctx())
				}
				sOff := colToOffset(src, s.SrcLine, s.SrcCol, unit, false)
				if sOff < 0 {
					return "source-position-outside", fmt.Sprintf("segment %d (%s): no such position in the source; %s", i, s, ctx())
				}
				ts := si[sOff]
				if ts == nil {
					return "source-position-not-a-token", fmt.Sprintf("segment %d (%s): generated token %q, but no source token starts at the source position (offset %d, text there %q); %s", i, s, tg.Text, sOff, core.Short(src[sOff:], 12), ctx())
				}
				if !sameLexeme(tg, ts) {
					return "different-lexeme", fmt.Sprintf("segment %d (%s) links generated token %q to source token %q; %s", i, s, tg.Text, ts.Text, ctx())
				}
				if s.HasName {
					if s.Name < 0 || s.Name >= len(co.Map.Names) {
						return "name-index", fmt.Sprintf("segment %d (%s): name index out of range; %s", i, s, ctx())
					}
					if tg.Kind != ref.TIdent || co.Map.Names[s.Name] != tg.Text {
						return "wrong-name", fmt.Sprintf("segment %d (%s) carries name %q at generated token %q; %s", i, s, co.Map.Names[s.Name], tg.Text, ctx())
					}
					covered[gOff] = tg.Text
				} else if tg.Kind == ref.TIdent {
					return "identifier-without-name", fmt.Sprintf("segment %d (%s) at identifier %q has no name; %s", i, s, tg.Text, ctx())
				}
				return "", ""
			}()
			if k == "" {
				ok = true
				break
			}
			if lastK == "" {
				lastK, lastD = k, d
			}
		}
		if !ok {
			return lastK, lastD, len(segs), true
		}
	}
	for i := range outToks {
		t := &outToks[i]
		if t.Kind == ref.TIdent {
			if _, ok := covered[t.Off]; !ok {
				return "identifier-not-covered", fmt.Sprintf("identifier %q at offset %d of the generated code has no named segment; %s", t.Text, t.Off, ctx()), len(segs), true
			}
		}
	}
	// a compiler value may be used for many compilations: the map of this program must not depend on what
	// the same compiler compiled before
	if k, d := c08Reuse(o.Prog, cfg, co); k != "" {
		return k, d, len(segs), true
	}
	seen := map[string]bool{}
	for _, n := range co.Map.Names {
		if seen[n] {
			return "duplicate-name", fmt.Sprintf("names %q", co.Map.Names), len(segs), true
		}
		seen[n] = true
	}
	return "", "", len(segs), true
}

// programs the reused compiler has compiled before: one ending on its last token, one ending in a line break,
// blank lines and a comment (what is left pending at the end of a compilation must not reach the next one)
var c08Other = func() []*ast.Program {
	var ps []*ast.Program
	for _, s := range []string{"b = a + x;\nlet z = [b, a]", "if (a) {\n  b = 1\n}\n\n\n// tail\n", "x = `t\n`;\n"} {
		ps = append(ps, parseMode(s, Mode{}).Prog)
	}
	return ps
}()

func c08Reuse(prog *ast.Program, cfg Cfg, first CompOut) (kind, detail string) {
	defer func() {
		if r := recover(); r != nil {
			kind, detail = "panic", "compiler reused: "+panicText(r)
		}
	}()
	k := cfg.Build()
	for _, other := range c08Other {
		_ = k.Compile(other)
	}
	r := k.Compile(prog)
	if r.Code != first.Code {
		return "reused-compiler-code", fmt.Sprintf("a compiler that compiled another program before emits %q, a fresh one %q", r.Code, first.Code)
	}
	if r.SourceMap == nil || r.SourceMap.Mappings != first.Map.Mappings || strings.Join(r.SourceMap.Names, "\x00") != strings.Join(first.Map.Names, "\x00") {
		got := "<nil>"
		if r.SourceMap != nil {
			got = fmt.Sprintf("mappings %q names %q", r.SourceMap.Mappings, r.SourceMap.Names)
		}
		return "reused-compiler-map", fmt.Sprintf("a compiler that compiled another program before emits %s; a fresh one mappings %q names %q", got, first.Map.Mappings, first.Map.Names)
	}
	return "", ""
}

func c08Run(c *core.Ctx) {
	processWarmup(c)
	cfgIdx := c08Quick
	if c.Thorough() {
		cfgIdx = nil
		for i := range c08Cfgs {
			cfgIdx = append(cfgIdx, i)
		}
	}
	if os.Getenv("XMC_C08_COMPACT") != "" {
		cfgIdx = []int{0}
	}
	report := func(k, d, src string, ci int, size int) {
		if k == "" || !c.ShrinkOK(k) {
			return
		}
		pl, _ := json.Marshal(c08Payload{Src: src, Cfg: ci})
		cls := "compact"
		if c08Cfgs[ci].Pretty {
			cls = "pretty"
		}
		c.Violate(core.Violation{Kind: k, Config: cls, Case: fmt.Sprintf("%q", src), Detail: d, Payload: pl, Size: size})
	}
	run := func(src string, size int, shrinkIdx []int, sep string) {
		c.Cur(src)
		c.Inc("inputs")
		use := cfgIdx
		if len(shrinkIdx) == 5 {
			use = c08Quick // length 5 (thorough): the representative option sets; lengths <= 4 get all 21
		}
		for _, ci := range use {
			k, d, n, acc := c08Check(src, c08Cfgs[ci])
			if !acc {
				return
			}
			c.Inc("maps_checked")
			c.Count("segments_checked", int64(n))
			if strings.Contains(src, "\n") {
				c.Inc("maps_of_multiline_sources")
			}
			if k != "" && shrinkIdx != nil && c.ShrinkOK(k) {
				fails := func(x []int) bool { kk, _, _, _ := c08Check(gen.Join(gen.T, x, sep), c08Cfgs[ci]); return kk == k }
				sh := core.ShrinkSeq(append([]int{}, shrinkIdx...), gen.Simpler, fails)
				s2 := gen.Join(gen.T, sh, sep)
				if kk, dd, _, _ := c08Check(s2, c08Cfgs[ci]); kk == k {
					report(k, dd, s2, ci, len(sh))
					continue
				}
			}
			report(k, d, src, ci, size)
		}
	}
	// (0) plugin nodes that write through each public method of the code writer
	for sep := range c08SepNames {
		for si, src := range c08PluginSrcs {
			if !c.Mine(int64(sep*16+si)) || c.Tick() {
				continue
			}
			c.Cur(src)
			for _, ci := range cfgIdx {
				c.Inc("plugin_node_maps")
				k, d, n, acc := c08CheckTree(parseWith(c08PluginPB(sep), src), src, c08Cfgs[ci])
				if !acc {
					continue
				}
				c.Inc("maps_checked")
				c.Count("segments_checked", int64(n))
				if k != "" && c.ShrinkOK("plugin"+k) {
					pl, _ := json.Marshal(c08Payload{Src: src, Cfg: ci, Sep: sep + 1})
					cls := "compact"
					if c08Cfgs[ci].Pretty {
						cls = "pretty"
					}
					c.Violate(core.Violation{Kind: k, Config: cls + ", plugin node writing " + c08SepNames[sep], Case: fmt.Sprintf("%q", src), Detail: d, Payload: pl, Size: 30})
				}
			}
		}
	}
	// (0b) a lexer plugin that consumes text itself (block comments, read with ReadChar before it calls next()):
	// every family program with a block comment in front of each single token; the segments must link the same
	// lexemes - the oracle reads the source with the consumed bytes blanked, positions are unchanged
	{
		skipPB := func() *parser.Builder {
			lb := c10UsageBuilder("skipper")
			return parser.NewBuilder(lb)
		}
		gen.Programs(1, func(prog []*gen.Node, name string) {
			if !c.Next() || c.Tick() {
				return
			}
			toks := gen.UnparseProgram(prog, false)
			for g := 0; g < len(toks); g++ {
				var sb strings.Builder
				for i, t := range toks {
					if i > 0 {
						sb.WriteString(" ")
					}
					if i == g {
						sb.WriteString("/* c */ ")
					}
					sb.WriteString(t.Text)
				}
				src := sb.String()
				blank, ok := c10Blanked(src)
				if !ok || strings.Contains(src, "`") {
					continue
				}
				c.Cur(src)
				for _, ci := range c08Quick[:2] {
					c.Inc("skipper_plugin_maps")
					k, d, n, acc := c08CheckTree(parseWith(skipPB(), src), blank, c08Cfgs[ci])
					if !acc {
						continue
					}
					c.Inc("maps_checked")
					c.Count("segments_checked", int64(n))
					if k != "" && c.ShrinkOK("skipper"+k) {
						pl, _ := json.Marshal(c08Payload{Src: src, Cfg: ci, Sep: -1})
						c.Violate(core.Violation{Kind: k, Config: c08Cfgs[ci].String() + ", lexer plugin that skips block comments", Case: fmt.Sprintf("%q", src), Detail: d, Payload: pl, Size: len(toks) + 3})
					}
				}
			}
		})
	}
	// (1) all token sequences <= n in space and LF layouts
	n := 4
	if c.Thorough() {
		n = 5
	}
	for L := 1; L <= n; L++ {
		gen.EachSeq(len(gen.T), L, func(idx []int) bool {
			if !c.Next() {
				return true
			}
			if c.Tick() {
				return false
			}
			if L == 5 && !c02Prefilter(idx) {
				return true
			}
			for si, sep := range []string{" ", "\n"} {
				if si > 0 && L < 2 {
					continue
				}
				run(gen.Join(gen.T, idx, sep), L, idx, sep)
			}
			return true
		})
		if !c.Expired() {
			c.SetMax("token_length_completed", int64(L))
		}
	}
	// (2) statement families x layouts (multi-line, indented, commented)
	level, k := 1, 1
	if c.Thorough() {
		level, k = 2, 2
	}
	gaps := []string{"\n", "", " // c\n", "\n\n", "\n    ", "\t", "\r\n", " // c\r\n"}
	prefixes := []string{"\n", "\n\n", "// c\n", "\n// c\n\n", "  ", "\r\n", "// c\r\n", "\n  // c\n  "}
	gen.Programs(level, func(prog []*gen.Node, name string) {
		if !c.Next() || c.Tick() {
			return
		}
		c.Inc("family_programs")
		toks := gen.UnparseProgram(prog, false)
		kk := k
		if len(toks) > 36 && kk > 1 {
			kk = 1
		}
		for _, pre := range prefixes {
			run(pre+gen.RenderDefault(toks), len(toks)*4+1, nil, "")
		}
		gen.Layouts(toks, kk, gaps, func(text string, devs []gen.Dev) {
			if c.Tick() {
				return
			}
			run(text, len(toks)*4+len(devs), nil, "")
			if c.Count0()%37 == 0 && len(devs) > 0 {
				c.Sample(text)
			}
		})
	})
	// (3) expression chains (two-character operators, implied parentheses, sign separation)
	holes := gen.Holes(true)
	for d := 1; d <= 2; d++ {
		gen.Chains(holes, gen.Leaves(), d, true, func(e *gen.Node, name string) {
			if !c.Next() || c.Tick() {
				return
			}
			c.Inc("expression_chains")
			toks := gen.UnparseProgram([]*gen.Node{gen.Ex(e), gen.Let("x", gen.Clone(e))}, false)
			run(gen.RenderDefault(toks), d*10, nil, "")
			run(gen.Render(toks, func(int) string { return "\n  " }, nil), d*10+1, nil, "")
			// a comment in front of every closing bracket in turn (trivia of closers is replayed by the printers)
			for ti, t := range toks {
				if t.Text == ")" || t.Text == "]" || t.Text == "}" {
					ti := ti
					run(gen.Render(toks, func(i int) string {
						if i == ti {
							return " // c\n"
						}
						return " "
					}, nil), d*10+2, nil, "")
				}
			}
		})
	}
	// (3c) identifier spellings (names table, keyword look-alikes)
	for ii, name := range gen.Identifiers() {
		if !c.Mine(int64(ii)) || c.Tick() {
			continue
		}
		for _, src := range gen.IdentPrograms(name) {
			c.Inc("identifier_programs")
			run(src, 40, nil, "")
		}
	}
	// (3b) scale family (long lines: multi-digit VLQ columns; many names; many lines)
	for i, sp := range gen.Scale(c.Thorough()) {
		if !c.Mine(int64(i)) || c.Tick() {
			continue
		}
		c.Inc("scale_programs")
		run(sp.Src, 1000+len(sp.Src), nil, "")
	}
	// (4) multi-line literals, re-quoted strings and non-ASCII text followed by more tokens
	for _, lit := range []string{"`l1\n  l2\nl3`", "`\n`", "'say \"hi\"'", "\"a\\\nb\"", "`a\\`b`", "'é'", "\"😀\"", "`é\n😀`", "'\\x41'"} {
		for _, tmpl := range []string{"x = %s + y;", "f(%s, a, b);\nlet z = a;", "if (a) {\n  g(%s); h(b)\n}\nw = 1", "x = [%s, %s, k];", "// é\nx = %s; y = 2"} {
			src := strings.ReplaceAll(tmpl, "%s", lit)
			if !c.Next() {
				continue
			}
			c.Inc("literal_programs")
			run(src, 50+len(src), nil, "")
		}
	}
}

func c08Replay(pl json.RawMessage) (string, []core.Violation) {
	var p c08Payload
	json.Unmarshal(pl, &p)
	out := fmt.Sprintf("source %q configuration %s", p.Src, c08Cfgs[p.Cfg])
	if p.Sep == -1 {
		out += ", lexer plugin that skips block comments"
		blank, _ := c10Blanked(p.Src)
		if k, d, _, _ := c08CheckTree(parseWith(parser.NewBuilder(c10UsageBuilder("skipper")), p.Src), blank, c08Cfgs[p.Cfg]); k != "" {
			return out, []core.Violation{{Kind: k, Config: c08Cfgs[p.Cfg].String(), Case: fmt.Sprintf("%q", p.Src), Detail: d}}
		}
		return out, nil
	}
	if p.Sep > 0 {
		out += ", plugin node writing " + c08SepNames[p.Sep-1]
		if k, d, _, _ := c08CheckTree(parseWith(c08PluginPB(p.Sep-1), p.Src), p.Src, c08Cfgs[p.Cfg]); k != "" {
			return out, []core.Violation{{Kind: k, Config: c08Cfgs[p.Cfg].String(), Case: fmt.Sprintf("%q", p.Src), Detail: d}}
		}
		return out, nil
	}
	if k, d, _, _ := c08Check(p.Src, c08Cfgs[p.Cfg]); k != "" {
		return out, []core.Violation{{Kind: k, Config: c08Cfgs[p.Cfg].String(), Case: fmt.Sprintf("%q", p.Src), Detail: d}}
	}
	return out, nil
}

func init() {
	core.Register(&core.PropSpec{
		ID: "C08", Level: "exploration",
		Rule:     "every accepted program of the universes (ALL token sequences <= n, n=4 quick / 5 thorough, in space and LF layouts; the statement families in every layout with <= k deviations over gaps {LF, none, comment, blank line, LF+indent, tab} and dropped semicolons; every expression chain <= depth 2 on one line and one token per line; multi-line, re-quoted and non-ASCII literals followed by more tokens) is compiled with a source map in compact mode and in 4 (quick) / all 21 (thorough) pretty option sets; the mappings are decoded by the independent decoder; for EVERY segment the independent tokenizer must find a token starting exactly at the generated position in Code and one starting exactly at the source position in the source, of the same kind and lexeme (string/template literals: same kind); segments are ordered by generated position; a segment at an identifier carries that identifier as name, every identifier token of Code is covered by such a segment, name indices are in range and names unique. A column is accepted if it is right in UTF-16 units or in bytes. non-trivial = maps of multi-line sources Added: generated code is split into lines as the source-map builder is specified to (LF, CRLF, lone CR); CRLF and CRLF+comment gaps; 8 program prefixes (blank lines, comments, CRLF before the first statement); compiler reuse (a compiler that compiled three other programs before - one of them ending in blank lines and a comment - must emit the same code, mappings and names); the scale family (long lines: three-digit VLQ deltas; hundreds of names and lines); plugin expression nodes that write a separator through each public writer method (WriteRune / WriteString with and without line breaks, WriteNewline, WriteSpace) around operands of 4 programs. Skipper plugin (round 12): every family program with a block comment in front of each single token, lexed through a token interceptor that consumes the comment itself with ReadChar and then calls next(); the oracle reads the source with the consumed bytes blanked.",
		Assume:   []string{"columns: UTF-16 code units or bytes are both accepted (identical for ASCII)", "string literals are compared by kind only (quote style and escaping may change)"},
		QuickSec: 300, ThorSec: 2400, Run: c08Run, Replay: c08Replay,
		Evals: "maps_checked", Nontriv: "maps_of_multiline_sources",
	})
}

// C08Try runs the check on one source in every configuration (debugging aid).
func C08Try(src string) string {
	for i, cfg := range c08Cfgs {
		if k, d, _, _ := c08Check(src, cfg); k != "" {
			return fmt.Sprintf("cfg %d %s: %s: %s", i, cfg, k, d)
		}
	}
	return "ok"
}
