package props

import (
	"encoding/json"
	"fmt"
	"reflect"
	"strings"

	"github.com/xjslang/xjs/ast"
	"github.com/xjslang/xjs/lexer"
	"github.com/xjslang/xjs/parser"
	"github.com/xjslang/xjs/token"

	"xmc/core"
	"xmc/gen"
	"xmc/ref"
)

// C04: plugin interception is transparent, ordered and re-entrant.
// Model: an interceptor log. Every interceptor records (own index, enter/exit, current token); the
// reference says what the log must look like for ANY input: complete runs 0..n-1 per parse step in
// installation order, the same steps whatever n is, the entry token being the leftmost token of the
// construct the step returns, every statement / operand of the resulting tree produced by exactly one
// step, token interceptors entered once per request on the lexeme's first byte; and all observable
// results equal those of the interceptor-free run.

type c04Cfg struct {
	NT     int    `json:"nt"`     // token interceptors
	NS     int    `json:"ns"`     // statement interceptors
	Ex     string `json:"ex"`     // expression interceptors, installation order: P pass-through, R re-entrant, D re-entrant through the public building blocks, I re-entrant asking to continue more than once
	Plugin bool   `json:"plugin"` // installed through Install(plugin) instead of directly
}

func (c c04Cfg) String() string {
	s := fmt.Sprintf("T%d,S%d,E[%s]", c.NT, c.NS, c.Ex)
	if c.Plugin {
		s += ",plugin"
	}
	return s
}

type c04Payload struct {
	Src string `json:"src"`
	Cfg c04Cfg `json:"cfg"`
	Ext int    `json:"ext,omitempty"`
	Dir bool   `json:"direct,omitempty"`
}

// c04Ext selects the language the run in progress is about: 0 = the built-in subset; L > 0 = the subset
// extended, on every builder involved (the interceptor-free one as well), by an infix operator OP
// registered at level L (1 = LOWEST), a prefix operator PRE and a postfix operator BANG. Interception has
// to be transparent for an extended language exactly as for the plain one.
var c04Ext int

func c04Extend(pb *parser.Builder) {
	if c04Ext == 0 {
		return
	}
	if c04Ext == c04ExtPlugLang {
		c04PlugTypes = plugLangLexer(pb.LexerBuilder)
		return
	}
	lb := pb.LexerBuilder
	types := map[string]token.Type{}
	for _, sp := range []string{"OP", "PRE", "BANG"} {
		types[sp] = lb.RegisterTokenType("tt_" + sp)
	}
	lb.UseTokenInterceptor(func(l *lexer.Lexer, next func() token.Token) token.Token {
		t := next()
		if t.Type == token.IDENT {
			if ty, ok := types[t.Literal]; ok {
				t.Type = ty
			}
		}
		return t
	})
	pb.RegisterInfixOperator(types["OP"], c04Ext, mkInfix)
	pb.RegisterPrefixOperator(types["PRE"], mkPrefix)
	pb.RegisterPostfixOperator(types["BANG"], mkPostfix)
}

// c04ExtPlugLang: the language of the run is the plugin language of pluglang.go (three statement kinds parsed
// by a plugin with the exported parser methods). The plugin's statement interceptor is installed LAST
// (innermost) on every builder, so that the logging interceptors see one step per plugin statement too.
const c04ExtPlugLang = -1

var c04PlugTypes plugTypes

func c04ExtendLast(pb *parser.Builder) {
	if c04Ext == c04ExtPlugLang {
		plugLangStatements(pb, c04PlugTypes)
	}
}

// c04StmtDirect: the innermost statement interceptor does not call next() but dispatches on the current token
// to the public Parse...Statement method itself (what a plugin does that wants to handle one statement kind
// and delegates the rest); tokens, tree, errors, output and the interceptor log must be what next() gives.
var c04StmtDirect bool

func c04Dispatch(p *parser.Parser) ast.Statement {
	switch p.CurrentToken.Type {
	case token.LET:
		return p.ParseLetStatement()
	case token.FUNCTION:
		return p.ParseFunctionStatement()
	case token.RETURN:
		return p.ParseReturnStatement()
	case token.IF:
		return p.ParseIfStatement()
	case token.WHILE:
		return p.ParseWhileStatement()
	case token.FOR:
		return p.ParseForStatement()
	case token.LBRACE:
		return p.ParseBlockStatement()
	}
	return p.ParseExpressionStatement()
}

// c04Prefix: what a plugin does that parses the prefix "itself": it dispatches on the current token to the exported
// building block of that prefix form (the literal parsers, ParseIdentifier, ParseGroupedExpression,
// ParseUnaryExpression, ParseArrayLiteral, ParseObjectLiteral, ParseFunctionExpression) and leaves everything else
// (registered prefix operators, tokens that start no expression) to ParsePrefixExpression.
func c04Prefix(p *parser.Parser) ast.Expression {
	switch p.CurrentToken.Type {
	case token.IDENT:
		return p.ParseIdentifier()
	case token.INT:
		return p.ParseIntegerLiteral()
	case token.FLOAT:
		return p.ParseFloatLiteral()
	case token.STRING:
		return p.ParseStringLiteral()
	case token.RAW_STRING:
		return p.ParseMultiStringLiteral()
	case token.TRUE, token.FALSE:
		return p.ParseBooleanLiteral()
	case token.NULL:
		return p.ParseNullLiteral()
	case token.LPAREN:
		return p.ParseGroupedExpression()
	case token.LBRACKET:
		return p.ParseArrayLiteral()
	case token.LBRACE:
		return p.ParseObjectLiteral()
	case token.FUNCTION:
		return p.ParseFunctionExpression()
	case token.MINUS, token.NOT, token.INCREMENT, token.DECREMENT:
		return p.ParseUnaryExpression()
	}
	return p.ParsePrefixExpression()
}

// c04BasePB is the interceptor-free builder of the language of the run in progress.
func c04BasePB(m Mode) *parser.Builder {
	pb := newPB(m)
	c04Extend(pb)
	c04ExtendLast(pb)
	return pb
}

type c04Step struct {
	who   int
	enter bool
	pos   token.Position
	lit   string
	node  any // on exit: what next() returned
}

type c04TokEv struct {
	who       int
	line, col int
	ch        byte
	ret       token.Token
}

type c04Log struct {
	stmt []c04Step
	expr []c04Step
	tok  []c04TokEv
}

func c04Build(cfg c04Cfg, m Mode, lg *c04Log) *parser.Builder {
	lb := lexer.NewBuilder()
	pb := parser.NewBuilder(lb)
	if m.Tolerant {
		pb.WithTolerantMode(true)
	}
	if m.Smart {
		pb.WithSmartSemicolon(true)
	}
	c04Extend(pb)
	install := func(f func(pb *parser.Builder)) {
		if cfg.Plugin {
			pb.Install(f)
		} else {
			f(pb)
		}
	}
	for i := 0; i < cfg.NT; i++ {
		i := i
		install(func(pb *parser.Builder) {
			pb.LexerBuilder.UseTokenInterceptor(func(l *lexer.Lexer, next func() token.Token) token.Token {
				ev := c04TokEv{who: i, line: l.Line, col: l.Column, ch: l.CurrentChar}
				t := next()
				ev.ret = t
				lg.tok = append(lg.tok, ev)
				return t
			})
		})
	}
	for i := 0; i < cfg.NS; i++ {
		i := i
		install(func(pb *parser.Builder) {
			pb.UseStatementInterceptor(func(p *parser.Parser, next func() ast.Statement) ast.Statement {
				lg.stmt = append(lg.stmt, c04Step{who: i, enter: true, pos: p.CurrentToken.Start, lit: p.CurrentToken.Literal})
				var s ast.Statement
				if c04StmtDirect && i == cfg.NS-1 {
					s = c04Dispatch(p)
				} else {
					s = next()
				}
				lg.stmt = append(lg.stmt, c04Step{who: i, node: s})
				return s
			})
		})
	}
	for i := 0; i < len(cfg.Ex); i++ {
		i := i
		re := cfg.Ex[i]
		install(func(pb *parser.Builder) {
			pb.UseExpressionInterceptor(func(p *parser.Parser, next func() ast.Expression) ast.Expression {
				lg.expr = append(lg.expr, c04Step{who: i, enter: true, pos: p.CurrentToken.Start, lit: p.CurrentToken.Literal})
				var e ast.Expression
				switch {
				case re == 'R':
					e = p.ParseRemainingExpression(p.ParsePrefixExpression())
				case re == 'D':
					e = p.ParseRemainingExpression(c04Prefix(p))
				case re == 'I':
					// continuing is idempotent: a level nothing binds at continues nothing, and asking again once the
					// remaining expression has been parsed adds nothing
					e = p.ParseRemainingExpressionWithPrecedence(p.ParsePrefixExpression(), 1000)
					e = p.ParseRemainingExpression(e)
					if !isNilNode(e) {
						e = p.ParseRemainingExpression(e)
					}
				default:
					e = next()
				}
				lg.expr = append(lg.expr, c04Step{who: i, node: e})
				return e
			})
		})
	}
	c04ExtendLast(pb)
	return pb
}

// c04Tokens drives a lexer directly until end of input has been returned twice.
func c04Tokens(lb *lexer.Builder, src string) (toks []token.Token, requests int, pan string) {
	defer func() {
		if r := recover(); r != nil {
			pan = panicText(r)
		}
	}()
	l := lb.Build(src)
	eofs := 0
	for i := 0; i < 4*len(src)+8 && eofs < 2; i++ {
		t := l.NextToken()
		requests++
		toks = append(toks, t)
		if t.Type == token.EOF {
			eofs++
		}
	}
	return
}

func tokString(t token.Token) string {
	return fmt.Sprintf("%d:%q@%d:%d-%d:%d nl=%v c=%q", t.Type, t.Literal, t.Start.Line, t.Start.Column, t.End.Line, t.End.Column, t.AfterNewline, t.LeadingComments)
}

type c04Base struct {
	toks   []string
	dump   string
	errs   string
	errNil bool
	codes  []string
	panic  string
	prog   *ast.Program
}

var c04OutCfgs = []Cfg{{}, {Pretty: true, Indent: -2, Semi: -1}, {Pretty: true, Indent: 4, Semi: 0}}

func c04Observe(pb *parser.Builder, src string) (b c04Base) {
	ts, _, pan := c04Tokens(pb.LexerBuilder, src)
	if pan != "" {
		b.panic = "lexer: " + pan
		return
	}
	for _, t := range ts {
		b.toks = append(b.toks, tokString(t))
	}
	o := parseWith(pb, src)
	if o.Panic != "" {
		b.panic = "parser: " + o.Panic
		return
	}
	b.prog = o.Prog
	b.dump = dumpTree(o.Prog)
	b.errNil = o.Err == nil
	var sb strings.Builder
	for _, e := range o.Errs {
		fmt.Fprintf(&sb, "%s@%v;", e.Message, e.Range)
	}
	b.errs = sb.String()
	if o.Err == nil {
		for _, oc := range c04OutCfgs {
			co := compileCfg(o.Prog, oc)
			if co.Panic != "" {
				b.codes = append(b.codes, "panic:"+co.Panic)
			} else {
				b.codes = append(b.codes, co.Code)
			}
		}
	}
	return
}

// leftmostTok returns the first token of a node (ok=false if unknown / nil).
func leftmostTok(n any) (token.Token, bool) {
	for depth := 0; depth < 500; depth++ {
		if n == nil {
			return token.Token{}, false
		}
		v := reflect.ValueOf(n)
		if v.Kind() == reflect.Ptr && v.IsNil() {
			return token.Token{}, false
		}
		switch e := n.(type) {
		case *ast.BinaryExpression:
			n = e.Left
		case *ast.PostfixExpression:
			n = e.Left
		case *ast.CallExpression:
			n = e.Function
		case *ast.MemberExpression:
			n = e.Object
		case *ast.AssignmentExpression:
			n = e.Left
		case *ast.CompoundAssignmentExpression:
			n = e.Left
		case *ast.ExpressionStatement:
			n = e.Expression
		case *cNode:
			if e.Kind == "cpre" {
				return e.Tok, true
			}
			if isNilNode(e.L) {
				return token.Token{}, false // malformed input: the operand is missing
			}
			n = e.L
		default:
			f := v.Elem().FieldByName("Token")
			if !f.IsValid() {
				return token.Token{}, false
			}
			return f.Interface().(token.Token), true
		}
	}
	return token.Token{}, false
}

func isNilNode(n any) bool {
	if n == nil {
		return true
	}
	v := reflect.ValueOf(n)
	return v.Kind() == reflect.Ptr && v.IsNil()
}

// c04Order checks one interceptor kind's log: n interceptors of which the first `active` are entered
// per step (all n for statements; up to and including the first re-entrant one for expressions).
// Returns the projected step list of interceptor 0 ("pos;pos;...") for cross-configuration comparison.
func c04Order(log []c04Step, active int, what string) (kind, detail, steps string) {
	if active == 0 {
		if len(log) != 0 {
			return what + "-unexpected-call", fmt.Sprintf("%d log entries with no active interceptor", len(log)), ""
		}
		return "", "", ""
	}
	var stack []c04Step // entered, not yet exited
	var sb strings.Builder
	expectWho := 0
	var runTok token.Position
	var runLit string
	for i, ev := range log {
		if ev.enter {
			if ev.who != expectWho {
				return what + "-order", fmt.Sprintf("log entry %d: interceptor %d entered, expected interceptor %d (installation order, each exactly once per step)", i, ev.who, expectWho), ""
			}
			if ev.who == 0 {
				runTok, runLit = ev.pos, ev.lit
				fmt.Fprintf(&sb, "%d:%d;", ev.pos.Line, ev.pos.Column)
			} else if ev.pos != runTok || ev.lit != runLit {
				return what + "-token-moved", fmt.Sprintf("log entry %d: interceptor %d sees current token %q at %v, interceptor 0 saw %q at %v in the same step", i, ev.who, ev.lit, ev.pos, runLit, runTok), ""
			}
			stack = append(stack, ev)
			expectWho = (ev.who + 1) % active
			continue
		}
		// exit
		if len(stack) == 0 || stack[len(stack)-1].who != ev.who {
			return what + "-nesting", fmt.Sprintf("log entry %d: interceptor %d returned out of order", i, ev.who), ""
		}
		ent := stack[len(stack)-1]
		stack = stack[:len(stack)-1]
		if expectWho != 0 {
			return what + "-skipped", fmt.Sprintf("log entry %d: interceptor %d returned before interceptor %d was entered", i, ev.who, expectWho), ""
		}
		if !isNilNode(ev.node) {
			if lt, ok := leftmostTok(ev.node); ok && (lt.Start != ent.pos) {
				return what + "-first-token", fmt.Sprintf("step entered with current token %q at %v, but the construct it returned starts with %q at %v", ent.lit, ent.pos, lt.Literal, lt.Start), ""
			}
		}
	}
	if len(stack) != 0 {
		return what + "-nesting", "interceptors still active at the end of parsing", ""
	}
	return "", "", sb.String()
}

// c04Coverage: on an error-free parse, every statement of the tree and every operand position that is
// not the left spine of its parent was returned by exactly one step of interceptor 0.
func c04Coverage(prog *ast.Program, lg *c04Log, checkStmt, checkExpr bool) (kind, detail string) {
	stmtSeen := map[any]int{}
	exprSeen := map[any]int{}
	for _, ev := range lg.stmt {
		if !ev.enter && ev.who == 0 && !isNilNode(ev.node) {
			stmtSeen[ev.node]++
		}
	}
	for _, ev := range lg.expr {
		if !ev.enter && ev.who == 0 && !isNilNode(ev.node) {
			exprSeen[ev.node]++
		}
	}
	var walkS func(s ast.Statement) bool
	var walkE func(e ast.Expression, step bool) bool
	needS := func(s ast.Statement) bool {
		if isNilNode(s) {
			return true
		}
		if checkStmt && stmtSeen[s] != 1 {
			kind, detail = "stmt-step-count", fmt.Sprintf("statement %s of the result was returned by %d statement steps (want exactly 1)", ref.XStmts([]ast.Statement{s}), stmtSeen[s])
			return false
		}
		return walkS(s)
	}
	needE := func(e ast.Expression) bool {
		if isNilNode(e) {
			return true
		}
		if checkExpr && exprSeen[e] != 1 {
			kind, detail = "expr-step-count", fmt.Sprintf("expression %T starting at %v was returned by %d expression steps (want exactly 1)", e, leftPos(e), exprSeen[e])
			return false
		}
		return walkE(e, true)
	}
	body := func(b *ast.BlockStatement) bool {
		if b == nil {
			return true
		}
		for _, s := range b.Statements {
			if !needS(s) {
				return false
			}
		}
		return true
	}
	walkS = func(s ast.Statement) bool {
		switch n := s.(type) {
		case *ast.LetStatement:
			return needE(n.Value)
		case *ast.ReturnStatement:
			return needE(n.ReturnValue)
		case *ast.ExpressionStatement:
			return needE(n.Expression)
		case *ast.FunctionDeclaration:
			return body(n.Body)
		case *ast.BlockStatement:
			return body(n)
		case *ast.IfStatement:
			return needE(n.Condition) && needS(n.ThenBranch) && needS(n.ElseBranch)
		case *ast.WhileStatement:
			return needE(n.Condition) && needS(n.Body)
		case *ast.ForStatement:
			if le, ok := n.Init.(*ast.LetExpression); ok && le != nil {
				if !needE(le.Value) {
					return false
				}
			} else if !needE(n.Init) {
				return false
			}
			return needE(n.Condition) && needE(n.Update) && needS(n.Body)
		case *pStmt:
			// what the plugin obtained from ParseExpression / ParseStatement is a step; the block it obtained
			// from ParseBlockStatement is not (it called the method itself), the statements inside are
			return needE(n.Cond) && needS(n.Body) && body(n.Block)
		}
		return true
	}
	walkE = func(e ast.Expression, step bool) bool {
		if isNilNode(e) {
			return true
		}
		switch n := e.(type) {
		case *ast.BinaryExpression:
			return walkE(n.Left, false) && needE(n.Right)
		case *ast.UnaryExpression:
			return needE(n.Right)
		case *ast.PostfixExpression:
			return walkE(n.Left, false)
		case *ast.GroupedExpression:
			return needE(n.Expression)
		case *ast.CallExpression:
			if !walkE(n.Function, false) {
				return false
			}
			for _, a := range n.Arguments {
				if !needE(a) {
					return false
				}
			}
		case *ast.MemberExpression:
			if !walkE(n.Object, false) {
				return false
			}
			if n.Computed {
				return needE(n.Property)
			}
			return walkE(n.Property, false) // property name after '.': don't care whether it is a step
		case *ast.AssignmentExpression:
			return walkE(n.Left, false) && needE(n.Value)
		case *ast.CompoundAssignmentExpression:
			return walkE(n.Left, false) && needE(n.Value)
		case *ast.FunctionExpression:
			return body(n.Body)
		case *ast.ArrayLiteral:
			for _, a := range n.Elements {
				if !needE(a) {
					return false
				}
			}
		case *ast.ObjectLiteral:
			for _, p := range n.Properties {
				if !needE(p.Key) || !needE(p.Value) {
					return false
				}
			}
		case *ast.LetExpression:
			return needE(n.Value)
		case *cNode:
			// registered operators: the left operand is the spine; whether the operand handed out by right()
			// is a step of its own is not constrained, its inside is
			return walkE(n.L, false) && walkE(n.R, false)
		}
		return true
	}
	for _, s := range prog.Statements {
		if !needS(s) {
			return
		}
	}
	return "", ""
}

func leftPos(e any) token.Position {
	t, _ := leftmostTok(e)
	return t.Start
}

// c04Check runs one (input, configuration, mode) against the interceptor-free observation.
// c04Events counts interceptor log events checked against the step model (measured by the worker).
var c04Events int64

func c04Check(src string, cfg c04Cfg, m Mode, base *c04Base, wantSteps *[2]string) (kind, detail string) {
	var lg c04Log
	pb := c04Build(cfg, m, &lg)
	// (c) token interceptors, lexer driven directly
	ts, requests, pan := c04Tokens(pb.LexerBuilder, src)
	if pan != "" {
		return "panic", "lexer with interceptors: " + pan
	}
	if len(ts) != len(base.toks) {
		return "tokens-differ", fmt.Sprintf("%d tokens with interceptors, %d without", len(ts), len(base.toks))
	}
	for i, t := range ts {
		if s := tokString(t); s != base.toks[i] {
			return "tokens-differ", fmt.Sprintf("token %d: %s with interceptors, %s without", i, s, base.toks[i])
		}
	}
	per := make([]int, cfg.NT)
	for _, ev := range lg.tok {
		per[ev.who]++
		st := ev.ret.Start
		if ev.line != st.Line || ev.col != st.Column {
			return "token-position", fmt.Sprintf("token interceptor %d entered at %d:%d (char %q) for the request that returned %s", ev.who, ev.line, ev.col, ev.ch, tokString(ev.ret))
		}
		off := ref.OffsetOf(src, st.Line, st.Column)
		var want byte
		if off >= 0 && off < len(src) {
			want = src[off]
		}
		if ev.ret.Type == token.EOF {
			want = 0
		}
		if ev.ch != want {
			return "token-char", fmt.Sprintf("token interceptor %d entered with CurrentChar %q, the lexeme of %s starts with %q", ev.who, ev.ch, tokString(ev.ret), want)
		}
	}
	for i, n := range per {
		if n != requests {
			return "token-count", fmt.Sprintf("token interceptor %d entered %d times for %d token requests", i, n, requests)
		}
	}
	c04Events += int64(len(lg.tok))
	lg.tok = nil
	defer func() { c04Events += int64(len(lg.stmt) + len(lg.expr)) }()
	// (a) transparency of the parse
	o := parseWith(pb, src)
	if o.Panic != "" {
		return "panic", "parser with interceptors: " + o.Panic
	}
	if (o.Err == nil) != base.errNil {
		return "error-differs", fmt.Sprintf("err=%v with interceptors, error-free without: %v", o.Err, base.errNil)
	}
	var sb strings.Builder
	for _, e := range o.Errs {
		fmt.Fprintf(&sb, "%s@%v;", e.Message, e.Range)
	}
	if sb.String() != base.errs {
		return "errors-differ", fmt.Sprintf("errors with interceptors %q, without %q", sb.String(), base.errs)
	}
	if d := dumpTree(o.Prog); d != base.dump {
		return "tree-differs", fmt.Sprintf("tree with interceptors %s, without %s", ref.XStmts(o.Prog.Statements), ref.XStmts(base.prog.Statements))
	}
	if o.Err == nil {
		for i, oc := range c04OutCfgs {
			co := compileCfg(o.Prog, oc)
			code := co.Code
			if co.Panic != "" {
				code = "panic:" + co.Panic
			}
			if code != base.codes[i] {
				return "output-differs", fmt.Sprintf("%s output with interceptors %q, without %q", oc, code, base.codes[i])
			}
		}
	}
	// (b) order / once per step / first token
	k, d, ssteps := c04Order(lg.stmt, cfg.NS, "stmt")
	if k != "" {
		return k, d
	}
	active := len(cfg.Ex)
	if i := strings.IndexAny(cfg.Ex, "RDI"); i >= 0 {
		active = i + 1
	}
	k, d, esteps := c04Order(lg.expr, active, "expr")
	if k != "" {
		return k, d
	}
	if cfg.NS > 0 {
		if wantSteps[0] == "" {
			wantSteps[0] = "=" + ssteps
		} else if wantSteps[0] != "="+ssteps {
			return "stmt-steps-depend-on-config", fmt.Sprintf("statement steps (start positions) %s here, %s in an earlier configuration", ssteps, wantSteps[0][1:])
		}
	}
	if active > 0 {
		if wantSteps[1] == "" {
			wantSteps[1] = "=" + esteps
		} else if wantSteps[1] != "="+esteps {
			return "expr-steps-depend-on-config", fmt.Sprintf("expression steps (start positions) %s here, %s in an earlier configuration", esteps, wantSteps[1][1:])
		}
	}
	if o.Err == nil {
		if k, d := c04Coverage(o.Prog, &lg, cfg.NS > 0, active > 0); k != "" {
			return k, d
		}
	}
	// a builder builds many parsers: the n-th parser built from the same builder behaves like the first. Run for the
	// 2nd and 3rd build (consecutive, so that a builder whose state alternates from build to build is seen whatever the
	// parity) and once more after the builder has been reconfigured and switched back.
	first := lg
	nthBuild := func(label string) (string, string) {
		if !(cfg.NS >= 2 || active >= 2 || cfg.NT >= 2) {
			return "", ""
		}
		lg = c04Log{}
		defer func() { lg = first }()
		o2 := parseWith(pb, src)
		if o2.Panic != "" {
			return "panic", label + " parser built from the same builder: " + o2.Panic
		}
		if d := dumpTree(o2.Prog); d != base.dump {
			return "second-build-tree-differs", fmt.Sprintf("%s parser built from the same builder gives %s, first %s", label, ref.XStmts(o2.Prog.Statements), ref.XStmts(base.prog.Statements))
		}
		for _, pr := range [][2][]c04Step{{first.stmt, lg.stmt}, {first.expr, lg.expr}} {
			a, b := pr[0], pr[1]
			if len(a) != len(b) {
				return "second-build-log-differs", fmt.Sprintf("%s parser built from the same builder logs %d interceptor events, the first %d", label, len(b), len(a))
			}
			for i := range a {
				if a[i].who != b[i].who || a[i].enter != b[i].enter || a[i].pos != b[i].pos {
					return "second-build-log-differs", fmt.Sprintf("event %d: %s parser built from the same builder: interceptor %d (enter=%v) at %v; first parser: interceptor %d (enter=%v) at %v", i, label, b[i].who, b[i].enter, b[i].pos, a[i].who, a[i].enter, a[i].pos)
				}
			}
		}
		return "", ""
	}
	for _, label := range []string{"second", "third"} {
		if k, d := nthBuild(label); k != "" {
			return k, d
		}
	}
	// a builder is reconfigured between two builds: the next parser must behave like an interceptor-free
	// parser of the NEW mode (options cached at the first Build would show here)
	if cfg.NS >= 1 || len(cfg.Ex) >= 1 {
		for _, m2 := range Modes {
			if m2 == m {
				continue
			}
			pb.WithTolerantMode(m2.Tolerant)
			pb.WithSmartSemicolon(m2.Smart)
			saved := lg
			lg = c04Log{}
			o3 := parseWith(pb, src)
			lg = saved
			b2 := parseWith(c04BasePB(m2), src)
			if o3.Panic != "" || b2.Panic != "" {
				continue
			}
			if d3, d2 := dumpTree(o3.Prog), dumpTree(b2.Prog); d3 != d2 || len(o3.Errs) != len(b2.Errs) {
				return "reconfigured-builder-differs", fmt.Sprintf("builder with interceptors built in mode %s, switched to %s and built again: tree %s with %d errors; an interceptor-free parser in mode %s: %s with %d errors",
					m, m2, ref.XStmts(o3.Prog.Statements), len(o3.Errs), m2, ref.XStmts(b2.Prog.Statements), len(b2.Errs))
			}
		}
		pb.WithTolerantMode(m.Tolerant)
		pb.WithSmartSemicolon(m.Smart)
	}
	if k, d := nthBuild("a later (after the builder was switched to the other modes and back)"); k != "" {
		return k, d
	}
	return "", ""
}

func c04Cfgs(level int) []c04Cfg {
	var cs []c04Cfg
	switch level {
	case 0: // cheapest: the configurations that exercise re-entrance and ordering at depth
		return []c04Cfg{{1, 1, "R", false}, {0, 2, "D", false}, {1, 2, "PIP", true}, {0, 0, "PPR", false}}
	}
	for _, nt := range []int{1, 2, 8} {
		cs = append(cs, c04Cfg{nt, 0, "", false})
	}
	for _, ns := range []int{1, 2, 3, 8} {
		cs = append(cs, c04Cfg{0, ns, "", false})
	}
	maxLen := 3
	if level >= 2 {
		maxLen = 4
	}
	for L := 1; L <= maxLen; L++ {
		for x := 0; x < 1<<L; x++ {
			b := make([]byte, L)
			for i := range b {
				b[i] = "PR"[(x>>i)&1]
			}
			cs = append(cs, c04Cfg{0, 0, string(b), false})
		}
	}
	cs = append(cs,
		c04Cfg{0, 0, "PPPPPPPP", false}, c04Cfg{0, 0, "RRRRRRRR", false}, c04Cfg{0, 0, "PPPPPPPR", false}, c04Cfg{0, 0, "PRPRPRPR", true},
		c04Cfg{0, 0, "D", false}, c04Cfg{0, 0, "I", false}, c04Cfg{0, 0, "PD", false}, c04Cfg{0, 0, "DP", true}, c04Cfg{1, 1, "PPI", false}, c04Cfg{0, 2, "RR", false},
		c04Cfg{2, 2, "PR", false}, c04Cfg{2, 2, "PR", true}, c04Cfg{1, 3, "RPR", true}, c04Cfg{8, 8, "PPPPPPPR", false}, c04Cfg{3, 1, "PP", true},
	)
	if level >= 2 {
		for nt := 3; nt <= 7; nt++ {
			cs = append(cs, c04Cfg{nt, nt, strings.Repeat("P", nt), nt%2 == 0})
		}
	}
	return cs
}

func c04RunInput(c *core.Ctx, src string, cfgs []c04Cfg, modes []Mode, size int) {
	c.Cur(src)
	for _, m := range modes {
		base := c04Observe(c04BasePB(m), src)
		if base.panic != "" {
			c.Inc("baseline_panics") // C10/C11's subject
			continue
		}
		c.Inc("inputs")
		if base.errNil {
			c.Inc("valid_inputs")
		} else {
			c.Inc("malformed_inputs")
		}
		var steps [2]string
		for _, cfg := range cfgs {
			c.Inc("config_runs")
			k, d := c04Check(src, cfg, m, &base, &steps)
			if k != "" && c.ShrinkOK(k) {
				pl, _ := json.Marshal(c04Payload{Src: src, Cfg: cfg, Ext: c04Ext, Dir: c04StmtDirect})
				ext := ""
				if c04Ext > 0 {
					ext = fmt.Sprintf(",OP@%d", c04Ext)
				}
				if c04Ext == c04ExtPlugLang {
					ext = ",plugin-language"
				}
				if c04StmtDirect {
					ext += ",direct-dispatch"
				}
				c.Violate(core.Violation{Kind: k, Config: cfg.String() + ext + "," + m.String(), Case: fmt.Sprintf("%q", src), Detail: d, Payload: pl, Size: size,
					Sig: k + "|" + cfg.String() + ext + "|" + fmt.Sprintf("%q", src)})
			}
		}
		if steps[1] != "" {
			c.Distinct("expr_step_shapes", steps[1])
		}
	}
}

// c04Extended: the same transparency, order and re-entrance clauses on an EXTENDED language: OP registered
// as an infix operator at every level 1..12 in turn (with a prefix and a postfix operator beside it), all
// token sequences over a small alphabet that mixes the registered spellings with built-in operators of
// the neighbouring levels, in whole-expression and nested positions.
func c04Extended(c *core.Ctx) {
	defer func() { c04Ext = 0 }()
	alpha := []string{"a", "OP", "PRE", "BANG", "=", "+", "(", ")", ",", "||"}
	n := 3
	if c.Thorough() {
		n = 4
	}
	cfgs := []c04Cfg{{0, 0, "P", false}, {0, 0, "R", false}, {1, 1, "PD", false}, {0, 2, "IP", true}, {0, 0, "PPR", false}}
	frames := []string{"%s", "let v = %s", "f(%s, %s)", "function g() { return %s }\nx = [%s]"}
	for lvl := 1; lvl <= 12; lvl++ {
		for L := 1; L <= n; L++ {
			gen.EachSeq(len(alpha), L, func(idx []int) bool {
				if !c.Next() {
					return true
				}
				if c.Tick() {
					return false
				}
				c04Ext = lvl
				body := gen.Join(alpha, idx, " ")
				uses := strings.Contains(body, "OP") || strings.Contains(body, "PRE") || strings.Contains(body, "BANG")
				for fi, fr := range frames {
					if fi > 0 && (!uses || L > 3) {
						break
					}
					src := strings.ReplaceAll(fr, "%s", body)
					c.Inc("extended_language_inputs")
					c04RunInput(c, src, cfgs, []Mode{{}}, L)
					if fi == 0 && L <= 3 {
						c04RunInput(c, strings.ReplaceAll(body, " ", "\n"), cfgs[:2], []Mode{{}, {Smart: true}}, L)
					}
				}
				c04Ext = 0
				return true
			})
		}
	}
	c04Ext = 0
}

// c04PlugLang: the same clauses on the plugin language: all token sequences <= 3 (4 thorough) over an alphabet
// with the three plugin keywords, and the well-formed programs of plugLangPrograms, in two layouts.
func c04PlugLang(c *core.Ctx) {
	c04Ext = c04ExtPlugLang
	defer func() { c04Ext = 0 }()
	cfgs := []c04Cfg{{0, 1, "", false}, {1, 2, "P", false}, {0, 3, "R", true}, {0, 0, "PD", false}, {2, 0, "I", false}}
	n := 3
	if c.Thorough() {
		n = 4
	}
	A := plugLangAlphabet
	for L := 1; L <= n; L++ {
		gen.EachSeq(len(A), L, func(idx []int) bool {
			if !c.Next() {
				return true
			}
			if c.Tick() {
				return false
			}
			has := false
			for _, x := range idx {
				if x >= 1 && x <= 3 {
					has = true
				}
			}
			if !has {
				return true
			}
			c.Inc("plugin_language_inputs")
			cf := cfgs
			if L == 4 {
				cf = cfgs[:2]
			}
			c04RunInput(c, gen.Join(A, idx, " "), cf, []Mode{{}}, L)
			if L >= 2 && L <= 3 {
				c04RunInput(c, gen.Join(A, idx, "\n"), cf[:2], []Mode{{}, {Tolerant: true, Smart: true}}, L)
			}
			return true
		})
	}
	for i, src := range plugLangPrograms(c.Thorough()) {
		if !c.Mine(int64(i)) || c.Tick() {
			continue
		}
		c.Inc("plugin_language_inputs")
		c.Inc("plugin_language_programs")
		c04RunInput(c, src, cfgs, Modes, 20+len(src))
		c04RunInput(c, strings.ReplaceAll(src, " ", "\n"), cfgs[:3], []Mode{{}, {Smart: true}}, 20+len(src))
	}
}

// c04Bytes: lexeme shapes the token alphabet does not have (unterminated and empty literals, lone escape
// characters, bytes that are no token): all byte strings <= 3 (4 thorough) over the 26-byte lexer alphabet under
// token interceptors (and one mixed configuration).
func c04Bytes(c *core.Ctx) {
	cfgs := []c04Cfg{{1, 0, "", false}, {2, 1, "P", true}}
	n := 3
	if c.Thorough() {
		n = 4
	}
	A := lexAlphabet
	for L := 1; L <= n; L++ {
		gen.EachSeq(len(A), L, func(idx []int) bool {
			if !c.Next() {
				return true
			}
			if c.Tick() {
				return false
			}
			b := make([]byte, L)
			for i, x := range idx {
				b[i] = A[x]
			}
			c.Inc("byte_inputs")
			cf := cfgs
			if L == 4 {
				cf = cfgs[:1]
			}
			c04RunInput(c, string(b), cf, []Mode{{}}, L)
			// the same bytes at the end of a well-formed prefix
			c04RunInput(c, "let s = "+string(b), cf[:1], []Mode{{}}, L+3)
			return true
		})
	}
}

// c04Direct: the direct-dispatch statement interceptor on all token sequences <= 3 (4 thorough), the statement
// families and the nesting chains.
func c04Direct(c *core.Ctx) {
	c04StmtDirect = true
	defer func() { c04StmtDirect = false }()
	cfgs := []c04Cfg{{0, 1, "", false}, {1, 2, "P", false}, {0, 3, "R", true}}
	n := 3
	if c.Thorough() {
		n = 4
	}
	for L := 1; L <= n; L++ {
		gen.EachSeq(len(gen.T), L, func(idx []int) bool {
			if !c.Next() {
				return true
			}
			if c.Tick() {
				return false
			}
			c.Inc("direct_dispatch_inputs")
			cf := cfgs
			if L == 4 {
				cf = cfgs[:1]
			}
			c04RunInput(c, gen.Join(gen.T, idx, " "), cf, []Mode{{}}, L)
			if L >= 2 && L <= 3 {
				c04RunInput(c, gen.Join(gen.T, idx, "\n"), cf[:1], []Mode{{}, {Tolerant: true, Smart: true}}, L)
			}
			return true
		})
	}
	level := 1
	if c.Thorough() {
		level = 2
	}
	gen.Programs(level, func(prog []*gen.Node, name string) {
		if !c.Next() || c.Tick() {
			return
		}
		c.Inc("direct_dispatch_inputs")
		toks := gen.UnparseProgram(prog, false)
		c04RunInput(c, gen.RenderDefault(toks), cfgs, []Mode{{}}, len(toks))
	})
	gen.NestChains(gen.Nesters(true), 2, func(prog []*gen.Node, name string) {
		if !c.Next() || c.Tick() {
			return
		}
		c.Inc("direct_dispatch_inputs")
		c04RunInput(c, gen.RenderDefault(gen.UnparseProgram(prog, false)), cfgs[:2], []Mode{{}}, 30)
	})
}

func c04Run(c *core.Ctx) {
	processWarmup(c)
	defer func() { c.Count("interceptor_log_events", c04Events) }()
	c04Direct(c)
	c04Bytes(c)
	c04Extended(c)
	c04PlugLang(c)
	full := c04Cfgs(1)
	if c.Thorough() {
		full = c04Cfgs(2)
	}
	cheap := c04Cfgs(0)
	c.Note("configurations_full", fmt.Sprint(len(full)))
	c.Note("configurations_reduced", fmt.Sprint(cheap))
	modes1 := []Mode{{}}
	modesAll := Modes
	// (1) ALL token sequences <= n (valid and malformed): full configuration set up to 3, reduced set at 4 (thorough)
	n := 3
	if c.Thorough() {
		n = 4
	}
	for L := 0; L <= n; L++ {
		gen.EachSeq(len(gen.T), L, func(idx []int) bool {
			if !c.Next() {
				return true
			}
			if c.Tick() {
				return false
			}
			src := gen.Join(gen.T, idx, " ")
			switch {
			case L <= 2:
				c04RunInput(c, src, full, modesAll, L)
			case L == 3:
				c04RunInput(c, src, full, modes1, L)
			default:
				c04RunInput(c, src, cheap, modes1, L)
			}
			if L >= 2 {
				c04RunInput(c, gen.Join(gen.T, idx, "\n"), cheap, modes1, L)
			}
			return true
		})
		if !c.Expired() {
			c.SetMax("token_length_completed", int64(L))
		}
	}
	// (2) expression chains: depth <= 2 with the full configuration set, depth 3 with the reduced set
	holes := gen.Holes(c.Thorough())
	leaves := gen.Leaves()
	for depth := 1; depth <= 3; depth++ {
		hs := holes
		lv := leaves
		cfgs := full
		if depth == 3 {
			hs = gen.Holes(false)
			cfgs = cheap
			if !c.Thorough() {
				lv = leaves[:2]
			}
		}
		gen.Chains(hs, lv, depth, true, func(e *gen.Node, name string) {
			if !c.Next() || c.Tick() {
				return
			}
			c.Inc("expression_chains")
			src := gen.RenderDefault(gen.UnparseProgram([]*gen.Node{gen.Ex(e), gen.Let("x", gen.Ca(gen.I("f"), cloneExpr(e)))}, false))
			c04RunInput(c, src, cfgs, modes1, depth)
			if c.Count0()%7919 == 0 {
				c.Sample(src)
			}
		})
		if !c.Expired() {
			c.SetMax("chain_depth_completed", int64(depth))
		}
	}
	// (3) statement families and nesting chains (nested steps, brace-less bodies, function expressions)
	level := 1
	if c.Thorough() {
		level = 2
	}
	gen.Programs(level, func(prog []*gen.Node, name string) {
		if !c.Next() || c.Tick() {
			return
		}
		c.Inc("statement_programs")
		toks := gen.UnparseProgram(prog, false)
		cf := cheap
		if len(toks) <= 24 {
			cf = full
		}
		c04RunInput(c, gen.RenderDefault(toks), cf, modes1, len(toks))
		c04RunInput(c, gen.Render(toks, func(int) string { return "\n" }, func(int) int { return 1 }), cheap, modes1, len(toks))
	})
	for i, sp := range gen.Scale(c.Thorough()) {
		if !c.Mine(int64(i)) || c.Tick() {
			continue
		}
		c.Inc("scale_programs")
		c04RunInput(c, sp.Src, cheap, modes1, 1000+len(sp.Src))
	}
	gen.NestChains(gen.Nesters(true), 2, func(prog []*gen.Node, name string) {
		if !c.Next() || c.Tick() {
			return
		}
		c.Inc("statement_programs")
		c04RunInput(c, gen.RenderDefault(gen.UnparseProgram(prog, false)), cheap, modes1, 30)
	})
}

func cloneExpr(e *gen.Node) *gen.Node { return gen.Clone(e) }

func c04Replay(pl json.RawMessage) (string, []core.Violation) {
	var p c04Payload
	json.Unmarshal(pl, &p)
	out := fmt.Sprintf("source %q configuration %s registered-operator level %d", p.Src, p.Cfg, p.Ext)
	var vs []core.Violation
	c04Ext, c04StmtDirect = p.Ext, p.Dir
	defer func() { c04Ext, c04StmtDirect = 0, false }()
	for _, m := range Modes {
		base := c04Observe(c04BasePB(m), p.Src)
		if base.panic != "" {
			continue
		}
		var steps [2]string
		// an earlier configuration may be needed for the cross-configuration comparison
		c04Check(p.Src, c04Cfg{0, 1, "P", false}, m, &base, &steps)
		if k, d := c04Check(p.Src, p.Cfg, m, &base, &steps); k != "" {
			vs = append(vs, core.Violation{Kind: k, Config: p.Cfg.String() + "," + m.String(), Case: fmt.Sprintf("%q", p.Src), Detail: d})
			break
		}
	}
	return out, vs
}

func init() {
	core.Register(&core.PropSpec{
		ID: "C04", Level: "model_checking",
		Rule:     "configuration x input product with an interceptor-log model (also with a statement interceptor that dispatches to the public Parse...Statement methods itself instead of calling next(), on all token sequences <= 3 (4), the statement families and nesting chains; also on all byte strings <= 3 (4 thorough) over the 26-byte lexer alphabet, alone and after a well-formed prefix, under token interceptors; run on the built-in subset and, extended family, on the subset plus an infix operator registered at each level 1..12 with a prefix and a postfix operator, all token sequences <= 3 (4 thorough) over 10 lexemes in 4 frames, against the interceptor-free builder with the same registrations): configurations = token interceptor counts {1,2,8}, statement interceptor counts {1,2,3,8}, every sequence of pass-through/re-entrant expression interceptors of length <= 3 (4 thorough) plus 8-long ones, mixed sets, installed directly or through Install(plugin) (35 quick / 56 thorough; a reduced set of 4 re-entrance/order configurations on the largest universes); inputs = ALL token sequences <= 3 (4 thorough), valid or malformed, in space and LF layouts, every expression chain of depth <= 3 (as statement and as argument), statement families and nesting chains. Oracle per (input, configuration): tokens (lexer driven directly), tree dump with positions, Errors(), compact and pretty output identical to the interceptor-free run; each token interceptor entered exactly once per token request with Line/Column/CurrentChar on the first byte of the lexeme that request returns; statement/expression interceptor logs are complete runs 0..n-1 in installation order with one current token per run, properly nested; the step list of interceptor 0 is the same in every configuration; the entry token of a step is the leftmost token of the construct it returns; on error-free parses every statement of the tree and every operand outside the left spine was returned by exactly one step. states = distinct (input, mode) pairs, transitions = interceptor log events (token requests, statement and expression step entries/exits) checked against the log model Added (round 13): re-entrant expression interceptors of two more kinds in every configuration set - D parses the prefix through the exported building block of its token type (ParseIdentifier, Parse...Literal, ParseGroupedExpression, ParseArrayLiteral, ParseObjectLiteral, ParseFunctionExpression, ParseUnaryExpression), I asks the parser to continue more than once (ParseRemainingExpressionWithPrecedence at a level nothing binds at, then ParseRemainingExpression twice).",
		Assume:   []string{"a re-entrant interceptor ends the chain (it does not call next), so interceptors installed after it are not entered", "whether the property name after '.' is a parse step of its own is not constrained"},
		QuickSec: 400, ThorSec: 1800, Run: c04Run, Replay: c04Replay,
		Evals: "config_runs", Nontriv: "valid_inputs", States: "inputs", Trans: "interceptor_log_events",
	})
}
