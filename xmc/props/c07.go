package props

import (
	"encoding/json"
	"fmt"
	"strings"

	"xmc/core"
	"xmc/gen"
	"xmc/ref"
)

// C07: literal values survive transpilation. Every literal of the enumerated families is evaluated by
// the reference engine in the source and in the emitted code (program `print(LIT)`; strings are compared
// as UTF-16 code-unit arrays, numbers as String(v) with the sign of zero).

var c07Cfgs = []Cfg{{}, {Pretty: true, Indent: -2, Semi: -1}, {Pretty: true, Indent: -1, Semi: 0}}

type c07Payload struct {
	Lit  string `json:"literal"`
	Cfg  int    `json:"cfg"`
	Long string `json:"long,omitempty"` // descriptor of a generated long literal (kind:length) instead of its text
}

// literal interplay: a first literal whose END can desynchronise a line-oriented scanner (quotes of another
// kind, comment markers, escaped delimiters, escaped backslashes right before the closing delimiter), and a
// second, multi-line literal whose lines end in blanks
var c07InterplayFirst = []string{"`http://x`", "`a\\`b`", "\"//\"", "'\"'", "\"'\"", "'`'", "`\"`", "`'`", "\"\\\\\"", "`\\\\`", "'a\\'b'", "`${`}`", "\"a\\\"b\"", "'//'", "`// `",
	"`C:\\\\`", "'\\\\'", "\"x\\\\\\\"\"", "`\\\\\\``", "'\\\\\\\\'"}
var c07InterplaySecond = []string{"`p  \n  q  \n`", "`  \n\nz`", "`k \n`", "`\t \n \t`", "`a \" b  \n c `", "`it's  \n' `"}

// c07LongLit builds the long literal a descriptor names. The value is observed through length, both ends
// and the position of a marker, not printed in full.
func c07LongLit(kind string, n int) string {
	body := make([]byte, n)
	for i := range body {
		body[i] = "abcdefghij"[i%10]
	}
	if n > 4 {
		body[n/2] = 'Z'
	}
	var lit string
	switch kind {
	case "sq":
		lit = "'" + string(body) + "'"
	case "dq":
		lit = "\"" + string(body) + "\""
	case "tpl":
		lit = "`" + string(body) + "`"
	case "tpl-lines":
		for i := 999; i < n; i += 1000 {
			body[i] = '\n'
		}
		lit = "`" + string(body) + "`"
	case "esc":
		for i := 0; i+1 < n; i += 50 {
			body[i], body[i+1] = '\\', 'n'
		}
		lit = "\"" + string(body) + "\""
	case "frac":
		for i := range body {
			body[i] = "0123456789"[i%10]
		}
		return "(0." + string(body) + " + '|' + 1" + string(body[:n%300]) + ")"
	}
	return "(function(s) { return s.length + ':' + s.slice(0, 3) + ':' + s.slice(-3) + ':' + s.indexOf('Z') + ':' + s.lastIndexOf('j') })(" + lit + ")"
}

// c07Long: literals whose LENGTH is the variable, around the buffer sizes an output path may use
// (2^8, 2^12, 2^16, 2^20, and beyond).
func c07Long(c *core.Ctx) {
	var sizes []int
	for _, p := range []int{8, 12, 16, 20} {
		for d := -2; d <= 2; d++ {
			sizes = append(sizes, 1<<p+d)
		}
	}
	sizes = append(sizes, 100000, 3<<19, 1<<21+1)
	for _, kind := range []string{"sq", "dq", "tpl", "tpl-lines", "esc", "frac"} {
		for _, n := range sizes {
			if !c.Next() || c.Tick() {
				continue
			}
			if kind == "frac" && n > 1<<16+2 {
				continue
			}
			desc := fmt.Sprintf("%s:%d", kind, n)
			c.Cur("long literal " + desc)
			lit := c07LongLit(kind, n)
			for ci, cfg := range c07Cfgs {
				st, d := c07One(lit, cfg)
				switch st {
				case "ok":
					if ci == 0 {
						c.Inc("literals")
						c.Inc("fam:long-literals")
					}
					c.Inc("literal_evaluations")
				case "engine-rejects":
					c.Inc("outside_domain_engine_rejects_source")
				case "xjs-rejects":
					if ci == 0 {
						c.Inc("xjs_rejects_valid_literal")
						c.Note("xjs_rejects_example:long-literals", desc+" — "+d)
					}
				default:
					c.Inc("literal_evaluations")
					if c.ShrinkOK(st + "long" + kind) {
						pl, _ := json.Marshal(c07Payload{Cfg: ci, Long: desc})
						c.Violate(core.Violation{Kind: st, Config: cfg.String(), Case: "generated literal " + desc + " (kind:length; body abcdefghij… with Z in the middle)", Detail: core.Short(d, 600), Payload: pl, Size: 100 + len(desc)})
					}
				}
			}
		}
	}
}

func c07Prog(lits []string) string {
	var b strings.Builder
	for _, l := range lits {
		b.WriteString("print(")
		b.WriteString(l)
		b.WriteString(");\n")
	}
	return b.String()
}

// c07One checks one literal in one configuration. status: "ok", "engine-rejects", "xjs-rejects", or a
// failure kind.
func c07One(lit string, cfg Cfg) (status, detail string) {
	src := c07Prog([]string{lit})
	so := ref.RunJS(src)
	if so.SyntaxError || so.Interrupted {
		return "engine-rejects", ""
	}
	o := parseMode(src, Mode{})
	if o.Panic != "" {
		return "panic", o.Panic
	}
	if o.Err != nil {
		return "xjs-rejects", o.Errs[0].Message
	}
	co := compileCfg(o.Prog, cfg)
	if co.Panic != "" {
		return "panic", co.Panic
	}
	oo := ref.RunJS(co.Code)
	if oo.Interrupted {
		if oo.Hang {
			return "output-does-not-terminate", fmt.Sprintf("emitted %q", co.Code)
		}
		return "engine-rejects", "" // no verdict
	}
	if oo.String() != so.String() {
		k := "value"
		if oo.SyntaxError {
			k = "output-syntax-error"
		}
		return k, fmt.Sprintf("emitted %q\n   source value: %s\n   output value: %s", core.Short(co.Code, 400), core.Short(so.Log, 300), core.Short(oo.Log+" "+oo.Kind, 300))
	}
	return "ok", ""
}

type c07Batcher struct {
	c    *core.Ctx
	fam  string
	lits []string
}

func (b *c07Batcher) add(lit string) {
	if !b.c.Next() {
		return
	}
	b.lits = append(b.lits, lit)
	if len(b.lits) >= 40 {
		b.flush()
	}
}

func (b *c07Batcher) flush() {
	c := b.c
	lits := b.lits
	b.lits = nil
	if len(lits) == 0 || c.Tick() {
		return
	}
	c.Cur(lits[0])
	src := c07Prog(lits)
	batchOK := false
	so := ref.RunJS(src)
	if !so.SyntaxError && !so.Interrupted && so.Kind == "normal" {
		if o := parseMode(src, Mode{}); o.Panic == "" && o.Err == nil {
			batchOK = true
			for _, cfg := range c07Cfgs {
				co := compileCfg(o.Prog, cfg)
				if co.Panic != "" || ref.RunJS(co.Code).String() != so.String() {
					batchOK = false
					break
				}
			}
		}
	}
	if batchOK {
		c.Count("literals", int64(len(lits)))
		c.Count("literal_evaluations", int64(len(lits)*len(c07Cfgs)))
		c.Count("fam:"+b.fam, int64(len(lits)))
		if c.Count0()%977 < 40 {
			c.Sample(lits[0])
		}
		return
	}
	for _, lit := range lits {
		c.Cur(lit)
		for ci, cfg := range c07Cfgs {
			st, d := c07One(lit, cfg)
			switch st {
			case "ok":
				if ci == 0 {
					c.Inc("literals")
					c.Inc("fam:" + b.fam)
				}
				c.Inc("literal_evaluations")
			case "engine-rejects":
				if ci == 0 {
					c.Inc("outside_domain_engine_rejects_source")
				}
			case "xjs-rejects":
				if ci == 0 {
					c.Inc("xjs_rejects_valid_literal")
					c.Inc("xjs_rejects:" + b.fam)
					c.Note("xjs_rejects_example:"+b.fam, lit+" — "+d)
				}
			default:
				if ci == 0 {
					c.Inc("literals")
				}
				c.Inc("literal_evaluations")
				if c.ShrinkOK(st + b.fam) {
					pl, _ := json.Marshal(c07Payload{Lit: lit, Cfg: ci})
					c.Violate(core.Violation{Kind: st, Config: cfg.String(), Case: lit, Detail: d, Payload: pl, Size: len(lit)})
				}
			}
		}
	}
}

func hex(n, width int, upper bool) string {
	f := "%0*x"
	if upper {
		f = "%0*X"
	}
	return fmt.Sprintf(f, width, n)
}

func c07Fragments(n int) []string {
	all := []string{
		"a", " ", "\\n", "\\\\", "\\'", "\\\"", "'", "\"", "\\x41", "\\x31", "\\u0038", "\\0", "\\u{31}", "\\x22", "\\x27", "\\x5c", "\\x0a", "\\xe9", "\\u0041",
		"\\u0022", "\\u005C", "\\u000A", "\\u00e9", "\\u20AC", "\\uD83D", "\\uDE00", "\\u{41}", "\\u{1F600}", "\\u{22}", "\\u{0005c}",
		"\\t", "\\r", "\\u{000037}", "\\b", "\\v", "\\f", "\\\n", "\\\r\n", "é", "€", "😀", "$", "{", "}", "`", "//", "/*", ";", "\\x", "\\u",
		"\\u{", "\\u00", "\\xZ", "\\a", "\\1", "\\8", "0", "\t", "\\u2028", "\\u{2029}", "\\x7f", "\\x80", "\\xff", "\\u{10FFFF}", "\\u{D800}",
	}
	if n < len(all) {
		return all[:n]
	}
	return all
}

func c07Run(c *core.Ctx) {
	processWarmup(c)
	c07Long(c)
	quotes := []string{"'", "\""}
	B := func(fam string) *c07Batcher { return &c07Batcher{c: c, fam: fam} }
	wrap := func(q, body string) string { return q + body + q }

	b := B("xHH")
	for v := 0; v < 256; v++ {
		for _, q := range quotes {
			b.add(wrap(q, "\\x"+hex(v, 2, false)))
			b.add(wrap(q, "a\\x"+hex(v, 2, true)+"b"))
		}
	}
	b.flush()

	b = B("uHHHH")
	for v := 0; v < 65536; v++ {
		q := quotes[v&1]
		b.add(wrap(q, "\\u"+hex(v, 4, v&2 == 0)))
		if c.Thorough() {
			b.add(wrap(quotes[1-v&1], "x\\u"+hex(v, 4, v&2 != 0)))
		}
	}
	b.flush()

	b = B("u{}")
	for _, v := range []int{0, 0x7F, 0x80, 0x7FF, 0x800, 0xD7FF, 0xD800, 0xDBFF, 0xDC00, 0xDFFF, 0xE000, 0xFFFF, 0x10000, 0x10FFFF, 0x1FFFF, 0x20000, 0x3FFFF, 0x40000, 0x7FFFF, 0x80000, 0xEFFFF, 0xF0000, 0xFFFFF, 0x100000, 0x10ABCD, 0x10FFFD, 0x10FFFE, 0x22, 0x27, 0x5C, 0x60, 0xA, 0xD, 0x2028, 0x2029, 0x41, 0x1F600} {
		for w := 1; w <= 8; w++ {
			for _, up := range []bool{false, true} {
				h := hex(v, w, up)
				if len(h) > w && w < 6 {
					continue
				}
				for _, q := range quotes {
					b.add(wrap(q, "\\u{"+h+"}"))
				}
			}
		}
	}
	b.flush()

	b = B("ascii")
	for v := 0; v < 128; v++ {
		for _, q := range quotes {
			b.add(wrap(q, string(rune(v))))
			b.add(wrap(q, "\\"+string(rune(v))))
			b.add(wrap(q, "x"+string(rune(v))+"y"))
			b.add(wrap(q, "\\"+string(rune(v))+"1"))
		}
	}
	for _, s := range []string{"\\\n", "\\\r\n", "\\\r", "a\\\nb", "é", "€", "😀", "aé€😀z", "\xc3\xa9\\x41"} {
		for _, q := range quotes {
			b.add(wrap(q, s))
		}
	}
	b.flush()

	// every (backslash-escaped printable byte, raw printable byte) adjacency and the reverse: what follows
	// or precedes an escape must not be re-interpreted by the writer (both quotes and backtick)
	b = B("escape-adjacency")
	for e := 33; e < 127; e++ {
		if e >= '0' && e <= '9' || e == 'x' || e == 'u' {
			continue // digit, hex and unicode escapes have families of their own
		}
		for r := 32; r < 127; r++ {
			if r == '\\' {
				continue
			}
			for _, q := range []string{"'", "\"", "`"} {
				if string(rune(r)) == q || (q == "`" && (r == '$' || r == '{')) {
					continue
				}
				b.add(wrap(q, "\\"+string(rune(e))+string(rune(r))))
				if c.Thorough() || e < 64 || r == e {
					b.add(wrap(q, string(rune(r))+"\\"+string(rune(e))))
					b.add(wrap(q, "a\\"+string(rune(e))+string(rune(r))+"\\"+string(rune(e))))
				}
			}
		}
	}
	b.flush()

	nf := 45
	if c.Thorough() {
		nf = 61
	}
	fr := c07Fragments(nf)
	b = B("pairs")
	for _, x := range fr {
		for _, y := range fr {
			for _, q := range quotes {
				b.add(wrap(q, x+y))
			}
		}
	}
	b.flush()
	// a line continuation contributes nothing to the value: whatever stands on either side of it must not run
	// together in the emitted literal (every ordered pair of fragments around each kind of continuation)
	b = B("continuation-sandwich")
	for _, x := range c07Fragments(61) {
		for _, y := range c07Fragments(61) {
			for ci, cont := range []string{"\\\n", "\\\r\n", "\\\r"} {
				for qi, q := range quotes {
					if !c.Thorough() && ci > 0 && qi != ci-1 {
						continue
					}
					b.add(wrap(q, x+cont+y))
				}
			}
		}
	}
	b.flush()
	{
		b = B("triples")
		f3 := c07Fragments(16)
		if c.Thorough() {
			f3 = c07Fragments(30)
		}
		for _, x := range f3 {
			for _, y := range f3 {
				for _, z := range f3 {
					for _, q := range quotes {
						b.add(wrap(q, x+y+z))
					}
				}
			}
		}
		b.flush()
	}

	// decoded-escape neighbours: every printable ASCII character in each escaped spelling (\xHH, \uHHHH, \u{H..}, \u{00HH..}),
	// directly after each context that gives a following character a meaning (\0 and an octal-looking escape, an escaped
	// and a hex-escaped backslash, a plain letter) and directly before a digit, a letter or the end: whether an escape is
	// kept or decoded, its neighbours must not read it (or what it decodes to) as part of themselves
	b = B("decoded-escape-neighbours")
	for v := 0x20; v < 0x7f; v++ {
		for _, sp := range []string{"\\x" + hex(v, 2, false), "\\u" + hex(v, 4, true), "\\u{" + hex(v, 2, false) + "}", "\\u{" + hex(v, 6, true) + "}"} {
			for _, pre := range []string{"\\0", "\\\\", "\\x5c", "\\u{5C}", "a", ""} {
				for _, post := range []string{"", "1", "a"} {
					if !c.Thorough() && post == "a" && pre != "\\0" {
						continue
					}
					for _, q := range quotes {
						b.add(wrap(q, pre+sp+post))
					}
				}
			}
		}
	}
	b.flush()

	// backtick strings
	b = B("backtick")
	tf := []string{"a", "\\`", "\\\\", "\\n", "\n", "  \n", "\r\n", "$", "{", "${a}", "A", "'", "\"", " ", "\t", "\t\n"}
	maxT := 3
	if c.Thorough() {
		maxT = 4
	}
	for L := 0; L <= maxT; L++ {
		gen.EachSeq(len(tf), L, func(idx []int) bool {
			var sb strings.Builder
			for _, x := range idx {
				sb.WriteString(tf[x])
			}
			b.add("`" + sb.String() + "`")
			return true
		})
	}
	b.flush()

	// numbers
	b = B("numbers")
	for _, lit := range c07Numbers(c.Thorough()) {
		b.add(lit)
	}
	b.flush()

	// literals next to operators: every first character of the literal body after every operator (the
	// printer inserts separators between tokens; none may end up inside or change a literal)
	b = B("operator-adjacent")
	ops := []string{"+", "-", "*", "/", "%", "==", "!=", "<", ">", "<=", ">=", "&&", "||"}
	for _, q := range []string{"'", "\"", "`"} {
		for ch := 0x20; ch < 0x7f; ch++ {
			if ch == '\\' || string(rune(ch)) == q || (q == "`" && ch == '$') {
				continue
			}
			body := string(rune(ch)) + "2"
			for _, op := range ops {
				b.add(q + "1" + q + " " + op + " " + q + body + q)
			}
			b.add("- " + q + body + q)
			b.add("! " + q + body + q)
			b.add("- - " + q + body + q)
			b.add("[" + q + body + q + ", -" + q + body + q + "][1]")
		}
	}
	b.flush()

	// literals in the positions where the printer treats them specially: object keys and member access on
	// a number literal
	b = B("literal-positions")
	keys := []string{"a", "if", "0", "10", "01", "007", "08", "00", "1e3", "0x10", "-1", "1.0", "1.", ".5", "", " ", "a-b", "9007199254740993", "1_0", "$", "_", "é", "\\x41", "a b", "'", "true", "let", "NaN"}
	for _, k := range keys {
		for _, q := range []string{"'", "\""} {
			if strings.Contains(k, q) {
				continue
			}
			b.add("Object.keys({" + q + k + q + ": 1})[0]")
			b.add("Object.keys({x: 0, " + q + k + q + ": 1, y: 2}).join('|')")
			b.add("({" + q + k + q + ": 7})[" + q + k + q + "]")
		}
	}
	for _, n := range []string{"0", "1", "7", "10", "255", "0x1f", "0b11", "0o17", "1e3", "1.5", "0.5", "1e-2", "9007199254740993", "00", "017",
		"9223372036854775807", "9223372036854775808", "18446744073709551615", "18446744073709551616", "100000000000000000000", "1e21", "0xffffffffffffffff", "0x10000000000000000", "0b1" + strings.Repeat("0", 64), "0o2000000000000000000000", "123456789012345678901234567890"} {
		b.add(n + " .toString()")
		b.add("(" + n + ").toString()")
		b.add(n + " .constructor == Number")
		b.add(n + "[\"toFixed\"](1)")
		b.add("-" + n + " .toFixed(1)")
		b.add("a == " + n + " .valueOf()")
	}
	b.flush()

	// literal interplay: a literal that contains quote characters, comment markers or escapes, followed by a
	// multi-line literal whose lines end in blanks (line-oriented post-processing of the output must not be
	// thrown off by the first and damage the second)
	b = B("literal-interplay")
	first, second := c07InterplayFirst, c07InterplaySecond
	for _, f := range first {
		for _, sec := range second {
			b.add(f + " + " + sec)
			b.add(sec + " + " + f + " + " + sec)
			b.add("[" + f + ", " + sec + "][1]")
			// on different lines of the output
			b.add("(function() { let u = " + f + "; return " + sec + " })()")
			b.add("(function() { let u = " + f + "; let v = " + f + "; return u + " + sec + " })()")
			for _, f2 := range first {
				b.add(f + " + " + f2 + " + " + sec)
			}
		}
	}
	b.flush()
}

func c07Replay(pl json.RawMessage) (string, []core.Violation) {
	var p c07Payload
	json.Unmarshal(pl, &p)
	if p.Long != "" {
		var kind string
		var n int
		if i := strings.IndexByte(p.Long, ':'); i > 0 {
			kind = p.Long[:i]
			fmt.Sscan(p.Long[i+1:], &n)
		}
		st, d := c07One(c07LongLit(kind, n), c07Cfgs[p.Cfg])
		out := fmt.Sprintf("generated literal %s config %s: %s", p.Long, c07Cfgs[p.Cfg], st)
		if st != "ok" && st != "engine-rejects" && st != "xjs-rejects" {
			return out, []core.Violation{{Kind: st, Config: c07Cfgs[p.Cfg].String(), Case: "generated literal " + p.Long, Detail: core.Short(d, 600)}}
		}
		return out, nil
	}
	st, d := c07One(p.Lit, c07Cfgs[p.Cfg])
	out := fmt.Sprintf("literal %s config %s: %s", p.Lit, c07Cfgs[p.Cfg], st)
	if st != "ok" && st != "engine-rejects" && st != "xjs-rejects" {
		return out, []core.Violation{{Kind: st, Config: c07Cfgs[p.Cfg].String(), Case: p.Lit, Detail: d}}
	}
	return out, nil
}

func init() {
	core.Register(&core.PropSpec{
		ID: "C07", Level: "exploration",
		Rule:     "string literals in both quote styles: every \\xHH, every \\uHHHH, \\u{...} for 37 boundary code points (every power-of-two plane boundary up to U+10FFFF; the reference engine itself rejects U+10FFFF, which is counted as outside the domain) x 1..8 digits x case, every ASCII byte raw / backslash-escaped / embedded, line continuations, raw UTF-8 text, ALL pairs over a 45-fragment alphabet (thorough: 61) and all triples over 16 (thorough: 30); backtick strings: all sequences <= 3 (thorough 4) over 16 fragments incl. escaped backtick, raw LF, trailing spaces + LF, tab, tab + LF, CRLF, ${a}; numbers: 0..1000, 64-bit boundaries, all fractions with <=3+3 digits over {0,1,5,9}, exponent shapes, every hex/binary/octal literal of <= 3 digits + 64-bit boundaries, hexadecimal literals of 4..5 (6) digits over the look-alike digits {0,1,e,E,b,B,d,f}, exponents with leading zeros; each accepted literal's value (UTF-16 code units / String(v)) is compared between source and emitted code (compact, pretty, pretty+tabs without semicolons) on the reference engine. Literals the engine rejects are outside the domain; literals xjs rejects are counted (acceptance is C02's subject). non-trivial = accepted literal compared (every literal is distinct) Added families: every first character of a literal body after every operator (and after unary - ! - -); literals as object keys (28 keys x both quotes) and number literals as member-access objects; literal interplay (first literal with quote/comment characters or escapes at its end, second multi-line with trailing blanks, same line and different lines of one function body); long literals: 6 kinds (both quotes, raw, raw with line breaks, escapes, long fraction) x 23 lengths 2^8, 2^12, 2^16, 2^20 (each -2..+2), 100000, 1.5 MiB, 2 MiB+1, value observed through length, ends and marker positions; escape adjacency: every (backslash + printable byte, raw printable byte) pair and the reverse in both quote styles and in backtick strings; continuation sandwich: every ordered pair of the 61 fragments around a line continuation (LF, CRLF, CR). Added (round 14): decoded-escape neighbours - every printable ASCII character in 4 escaped spellings after \\0, an escaped / hex-escaped / brace-escaped backslash, a letter or nothing, before a digit, a letter or the end.",
		Assume:   []string{"goja evaluates literals per ECMAScript (both sides use it)"},
		QuickSec: 300, ThorSec: 1800, Run: c07Run, Replay: c07Replay,
		Evals: "literal_evaluations", Nontriv: "literals",
	})
}

// c07Numbers enumerates the numeric literal family.
func c07Numbers(thorough bool) []string {
	var out []string
	add := func(s string) { out = append(out, s) }
	for i := 0; i <= 1000; i++ {
		add(fmt.Sprint(i))
	}
	for _, s := range []string{"2147483647", "2147483648", "4294967295", "4294967296", "9007199254740991", "9007199254740992", "9007199254740993", "9223372036854775807", "9223372036854775808", "18446744073709551615", "18446744073709551616", "123456789012345678901234567890"} {
		add(s)
	}
	digs := []string{"0", "1", "5", "9"}
	var ints, fracs []string
	for L := 1; L <= 3; L++ {
		gen.EachSeq(4, L, func(idx []int) bool {
			s := ""
			for _, x := range idx {
				s += digs[x]
			}
			fracs = append(fracs, s)
			if s[0] != '0' || len(s) == 1 {
				ints = append(ints, s)
			}
			return true
		})
	}
	for _, i := range ints {
		for _, f := range fracs {
			add(i + "." + f)
		}
	}
	exps := []string{"0", "1", "2", "10", "21", "308", "309", "400", "00", "05"}
	for _, m := range []string{"1", "0", "5", "12", "1.5", "0.001", "9.99"} {
		for _, e := range []string{"e", "E"} {
			for _, sg := range []string{"", "+", "-"} {
				for _, x := range exps {
					add(m + e + sg + x)
				}
			}
		}
	}
	bases := []struct {
		p    string
		digs string
	}{{"0x", "0123456789abcdefABCDEF"}, {"0X", "019aFf"}, {"0b", "01"}, {"0B", "01"}, {"0o", "01234567"}, {"0O", "0157"}}
	for _, bs := range bases {
		for L := 1; L <= 3; L++ {
			gen.EachSeq(len(bs.digs), L, func(idx []int) bool {
				s := bs.p
				for _, x := range idx {
					s += string(bs.digs[x])
				}
				add(s)
				return true
			})
		}
	}
	// literals of one base that look like another shape: hexadecimal digits e/E (exponent marker), b/B, o-like 0,
	// d/f (suffix letters elsewhere) in every arrangement of 4..5 (6) digits
	look := "01eEbBdf"
	maxL := 5
	if thorough {
		maxL = 6
	}
	for L := 4; L <= maxL; L++ {
		if L == maxL {
			look = "01eEb"
		}
		gen.EachSeq(len(look), L, func(idx []int) bool {
			s := "0x"
			for _, x := range idx {
				s += string(look[x])
			}
			add(s)
			return true
		})
	}
	for _, m := range []string{"1", "10", "1.0", "1.50", "0.0", "100", "1.000", "0.10"} {
		for _, e := range []string{"e", "E"} {
			for _, sg := range []string{"", "+", "-"} {
				for _, x := range []string{"0", "1", "01", "001", "10", "010", "100", "000"} {
					add(m + e + sg + x)
				}
			}
		}
	}
	for _, s := range []string{"0x7fffffffffffffff", "0x8000000000000000", "0xffffffffffffffff", "0x10000000000000000", "0b" + strings.Repeat("1", 63), "0b" + strings.Repeat("1", 64), "0o777777777777777777777", "0o1777777777777777777777", "0o2000000000000000000000"} {
		add(s)
	}
	return out
}
