package props

import (
	"encoding/json"
	"fmt"
	"github.com/xjslang/xjs/token"
	"os"
	"reflect"
	"time"

	"github.com/xjslang/xjs/ast"

	"xmc/core"
	"xmc/gen"
	"xmc/ref"
)

// C03: printed code parses back to the tree it was printed from; compiling is a fixed point.
// Universe: programmatic ast trees built from every chain of <= 3 nested (constructor, operand
// position) contexts around every leaf kind, restricted as the property states (callee/object positions
// call-level-or-tighter, assignment/update targets identifiers or member accesses), each placed as an
// expression statement, a let initialiser and a call argument; x {compact, pretty(;), pretty(no ;)}.

var c03Cfgs = []Cfg{{}, {Pretty: true, Indent: -2, Semi: -1}, {Pretty: true, Indent: 2, Semi: 0}}

type c03Payload struct {
	Edited bool   `json:"edited,omitempty"` // the edited-tree family (re-run as a whole on replay)
	Deep   []int  `json:"deep,omitempty"`   // the deep-chain family (re-run as a whole on replay)
	Chain  string `json:"chain"`
	Place  int    `json:"place"`
	Depth  int    `json:"depth"`
	Full   bool   `json:"full"`
	Cfg    int    `json:"cfg"`
}

func c03Place(e *gen.Node, place int) []*gen.Node {
	switch place {
	case 0:
		return []*gen.Node{gen.Ex(e)}
	case 1:
		return []*gen.Node{gen.Let("x", e)}
	default:
		return []*gen.Node{gen.Ex(gen.Ca(gen.I("f"), e)), gen.Ex(gen.I("z"))}
	}
}

func c03Check(prog []*gen.Node, cfg Cfg) (kind, detail, code string) {
	want := gen.ShapeProgram(prog)
	x := toXProgram(prog)
	co := compileCfg(x, cfg)
	if co.Panic != "" {
		return "compile-panic", co.Panic, ""
	}
	code = co.Code
	o := parseMode(code, Mode{})
	if o.Panic != "" {
		return "parse-panic", o.Panic, code
	}
	if o.Err != nil {
		return "reparse-rejected", fmt.Sprintf("printed %q does not parse: %v (tree %s)", code, o.Errs[0].Message, want), code
	}
	if got := ref.XStmts(o.Prog.Statements); got != want {
		return "reparse-shape", fmt.Sprintf("printed %q parses to %s, tree was %s", code, got, want), code
	}
	co2 := compileCfg(o.Prog, cfg)
	if co2.Code != code {
		return "not-fixed-point", fmt.Sprintf("printed %q, re-parsed and printed again %q", code, co2.Code), code
	}
	return "", "", code
}

// c03Deep: long programmatically built chains (no grouping nodes): left-deep, right-deep and zig-zag over
// operator cycles, of every length around typical thresholds.
func c03Deep(c *core.Ctx) {
	cycles := [][]string{{"+"}, {"-"}, {"+", "*"}, {"*", "+"}, {"-", "/", "%"}, {"||", "&&", "==", "<", "+", "*"}, {"*", "+", "<", "==", "&&", "||"}}
	sizes := []int{9, 17, 33, 65, 129}
	if c.Thorough() {
		sizes = append(sizes, 257, 513)
	}
	for _, n := range sizes {
		for ci, cyc := range cycles {
			for shape := 0; shape < 3; shape++ {
				if !c.Next() || c.Tick() {
					continue
				}
				e := gen.I("a")
				for i := 0; i < n; i++ {
					op := cyc[i%len(cyc)]
					leaf := gen.I([]string{"a", "b", "c"}[i%3])
					switch {
					case shape == 0 || (shape == 2 && i%2 == 0):
						e = gen.Bi(op, e, leaf)
					default:
						e = gen.Bi(op, leaf, e)
					}
				}
				name := fmt.Sprintf("deep:%d:cycle%d:shape%d", n, ci, shape)
				c.Cur(name)
				for pi, cfg := range c03Cfgs {
					c.Inc("print_parse_roundtrips")
					c.Inc("deep_tree_roundtrips")
					k, d, _ := c03Check([]*gen.Node{gen.Ex(e)}, cfg)
					if k != "" && c.ShrinkOK("deep"+k) {
						pl, _ := json.Marshal(c03Payload{Deep: []int{n, ci, shape, pi}})
						c.Violate(core.Violation{Kind: k, Config: cfg.String(), Case: name, Detail: core.Short(d, 500), Payload: pl, Size: 1000 + n})
					}
				}
			}
		}
	}
}

// c03MultiLine: literals that span lines, in the positions where a line break matters to the reader.
func c03MultiLine(c *core.Ctx) {
	lits := []*gen.Node{gen.T_("`l1\nl2`"), gen.T_("`\n`"), gen.S("'a\\\nb'"), gen.T_("`x`")}
	for li, l := range lits {
		mk := func() *gen.Node { return gen.Clone(l) }
		progs := [][]*gen.Node{
			{gen.Ret(mk())},
			{gen.Ret(gen.Bi("+", mk(), gen.I("a")))},
			{gen.Func("g", nil, gen.Ret(gen.Bi("+", mk(), gen.I("t"))))},
			{gen.Ex(gen.Ix(mk(), gen.N("0")))},
			{gen.Ex(gen.Ca(gen.Do(mk(), "trim")))},
			{gen.Ex(gen.As("=", gen.I("x"), mk())), gen.Ex(gen.U("++", gen.I("y")))},
			{gen.Ex(gen.As("=", gen.I("x"), mk())), gen.Ex(gen.G(gen.I("a")))},
			{gen.Ex(gen.Bi("+", gen.I("a"), mk())), gen.Ex(gen.Ar(gen.I("b")))},
			{gen.Let("s", mk()), gen.Ex(gen.U("-", gen.I("a")))},
			{gen.If(gen.I("c"), gen.Ret(mk()), gen.Ex(gen.Ca(gen.I("f"), mk(), mk())))},
		}
		for pi, prog := range progs {
			if !c.Next() || c.Tick() {
				continue
			}
			for ci, cfg := range c03Cfgs {
				c.Inc("print_parse_roundtrips")
				c.Inc("multiline_literal_roundtrips")
				k, d, _ := c03Check(prog, cfg)
				if k != "" && c.ShrinkOK("ml"+k) {
					pl, _ := json.Marshal(c03Payload{Deep: []int{-1, li, pi, ci}})
					c.Violate(core.Violation{Kind: k, Config: cfg.String(), Case: "multi-line literal: " + gen.ShapeProgram(prog), Detail: core.Short(d, 500), Payload: pl, Size: 20})
				}
			}
		}
	}
}

// c03Trivia: two-statement trees in which the first token of the second statement carries leading trivia
// (trailing comment, own-line comment, blank lines), for every pair (statement that ends without a
// terminator, statement that starts with a continuation character).
func c03Trivia(c *core.Ctx) {
	firsts := []func() *gen.Node{
		func() *gen.Node { return gen.Ex(gen.I("a")) },
		func() *gen.Node { return gen.Let("x", gen.I("b")) },
		func() *gen.Node { return gen.Ret(gen.I("a")) },
		func() *gen.Node { return gen.Ex(gen.Po("++", gen.I("n"))) },
		func() *gen.Node { return gen.If(gen.I("c"), gen.Ex(gen.I("a")), nil) },
		func() *gen.Node { return gen.Ex(gen.As("=", gen.I("y"), gen.F("", nil))) },
	}
	seconds := []func() *gen.Node{
		func() *gen.Node { return gen.Ex(gen.G(gen.I("b"))) },
		func() *gen.Node { return gen.Ex(gen.Ca(gen.Do(gen.Ar(gen.I("b")), "c"))) },
		func() *gen.Node { return gen.Ex(gen.U("-", gen.I("b"))) },
		func() *gen.Node { return gen.Ex(gen.U("++", gen.I("b"))) },
		func() *gen.Node { return gen.Ex(gen.T_("`t`")) },
		func() *gen.Node { return gen.Ex(gen.I("z")) },
	}
	trivia := [][]string{{" note"}, {"", " own line"}, {"", ""}, {"", "", " after blank"}, {" t", " u"}}
	for fi, f := range firsts {
		for si, s := range seconds {
			for ti, tr := range trivia {
				if !c.Next() || c.Tick() {
					continue
				}
				for wrap := 0; wrap < 2; wrap++ {
					prog := []*gen.Node{f(), s()}
					if wrap == 1 {
						prog = []*gen.Node{gen.Func("g", nil, f(), s())}
					}
					for ci, cfg := range c03Cfgs {
						x := toXProgram(prog)
						list := x.Statements
						if wrap == 1 {
							list = x.Statements[0].(*ast.FunctionDeclaration).Body.Statements
						}
						if !setLeadingTrivia(list[1], tr) {
							continue
						}
						c.Inc("print_parse_roundtrips")
						c.Inc("trivia_tree_roundtrips")
						k, d := c03CheckX(x, gen.ShapeProgram(prog), cfg)
						if k != "" && c.ShrinkOK("trivia"+k) {
							pl, _ := json.Marshal(c03Payload{Deep: []int{-2, fi, si, ti, wrap, ci}})
							c.Violate(core.Violation{Kind: k, Config: cfg.String(), Case: fmt.Sprintf("%s with trivia %q on the first token of the second statement", gen.ShapeProgram(prog), tr), Detail: core.Short(d, 500), Payload: pl, Size: 12})
						}
					}
				}
			}
		}
	}
}

// setLeadingTrivia puts comments on the leftmost token of a statement of a programmatically built tree.
func setLeadingTrivia(st ast.Statement, tr []string) bool {
	var n any = st
	for depth := 0; depth < 50; depth++ {
		switch e := n.(type) {
		case *ast.ExpressionStatement:
			n = e.Expression
			continue
		case *ast.BinaryExpression:
			n = e.Left
			continue
		case *ast.PostfixExpression:
			n = e.Left
			continue
		case *ast.CallExpression:
			n = e.Function
			continue
		case *ast.MemberExpression:
			n = e.Object
			continue
		case *ast.AssignmentExpression:
			n = e.Left
			continue
		case *ast.CompoundAssignmentExpression:
			n = e.Left
			continue
		}
		v := reflect.ValueOf(n)
		if v.Kind() != reflect.Ptr || v.IsNil() {
			return false
		}
		f := v.Elem().FieldByName("Token")
		if !f.IsValid() || !f.CanSet() {
			return false
		}
		t := f.Interface().(token.Token)
		t.LeadingComments = append([]string{}, tr...)
		f.Set(reflect.ValueOf(t))
		return true
	}
	return false
}

// c03CheckX is c03Check for an already built xjs tree.
func c03CheckX(x *ast.Program, want string, cfg Cfg) (kind, detail string) {
	co := compileCfg(x, cfg)
	if co.Panic != "" {
		return "compile-panic", co.Panic
	}
	o := parseMode(co.Code, Mode{})
	if o.Panic != "" {
		return "parse-panic", o.Panic
	}
	if o.Err != nil {
		return "reparse-rejected", fmt.Sprintf("printed %q does not parse: %v (tree %s)", co.Code, o.Errs[0].Message, want)
	}
	if got := ref.XStmts(o.Prog.Statements); got != want {
		return "reparse-shape", fmt.Sprintf("printed %q parses to %s, tree was %s", co.Code, got, want)
	}
	if co2 := compileCfg(o.Prog, cfg); co2.Code != co.Code {
		return "not-fixed-point", fmt.Sprintf("printed %q, re-parsed and printed again %q", co.Code, co2.Code)
	}
	return "", ""
}

// c03Branches: brace-less bodies. Every body position of if / if-else / while / for (also nested in one
// another) holds a simple statement whose text ends in each class of final byte (name, number, quote,
// backtick, ')', ']', the '}' of an object literal, the '}' of a function expression, '++'), followed by
// nothing, by an else branch, or by a statement that starts with a continuation character.
func c03Branches(c *core.Ctx) {
	ends := []func() *gen.Node{
		func() *gen.Node { return gen.I("v") },
		func() *gen.Node { return gen.N("1") },
		func() *gen.Node { return gen.S("'s'") },
		func() *gen.Node { return gen.T_("`t`") },
		func() *gen.Node { return gen.Ca(gen.I("f")) },
		func() *gen.Node { return gen.Ar(gen.I("e")) },
		func() *gen.Node { return gen.Ob(gen.I("k"), gen.N("1")) },
		func() *gen.Node { return gen.Ob() },
		func() *gen.Node { return gen.F("", nil, gen.Ret(gen.N("2"))) },
		func() *gen.Node { return gen.F("", nil) },
		func() *gen.Node { return gen.Po("++", gen.I("n")) },
		func() *gen.Node { return gen.Bi("+", gen.I("a"), gen.Ob(gen.I("k"), gen.N("1"))) },
	}
	stmts := []func(e *gen.Node) *gen.Node{
		func(e *gen.Node) *gen.Node { return gen.Ret(e) },
		func(e *gen.Node) *gen.Node { return gen.Ex(gen.As("=", gen.I("x"), e)) },
		func(e *gen.Node) *gen.Node { return gen.Ex(gen.As("+=", gen.Do(gen.I("o"), "p"), e)) },
		func(e *gen.Node) *gen.Node { return gen.Ex(gen.Ca(gen.I("g"), e)) },
		func(e *gen.Node) *gen.Node { return gen.Ex(gen.Bi("+", gen.I("a"), e)) },
	}
	cond := func() *gen.Node { return gen.I("c") }
	other := func() *gen.Node { return gen.Ex(gen.As("=", gen.I("y"), gen.Ob(gen.I("q"), gen.N("0")))) }
	bodies := []struct {
		name string
		mk   func(s *gen.Node) []*gen.Node
	}{
		{"if", func(s *gen.Node) []*gen.Node { return []*gen.Node{gen.If(cond(), s, nil)} }},
		{"if-else-then", func(s *gen.Node) []*gen.Node { return []*gen.Node{gen.If(cond(), s, other())} }},
		{"if-else-else", func(s *gen.Node) []*gen.Node { return []*gen.Node{gen.If(cond(), other(), s)} }},
		{"if-else-both", func(s *gen.Node) []*gen.Node { return []*gen.Node{gen.If(cond(), s, gen.Clone(s))} }},
		{"else-if-chain", func(s *gen.Node) []*gen.Node {
			return []*gen.Node{gen.If(cond(), s, gen.If(gen.I("d"), gen.Clone(s), gen.Clone(s)))}
		}},
		{"while", func(s *gen.Node) []*gen.Node { return []*gen.Node{gen.While(cond(), s)} }},
		{"for", func(s *gen.Node) []*gen.Node { return []*gen.Node{gen.For(nil, cond(), nil, s)} }},
		{"if-while-else", func(s *gen.Node) []*gen.Node { return []*gen.Node{gen.If(cond(), gen.While(gen.I("d"), s), other())} }},
		{"if-for-else", func(s *gen.Node) []*gen.Node {
			return []*gen.Node{gen.If(cond(), gen.For(nil, gen.I("d"), nil, s), other())}
		}},
		{"while-if-else", func(s *gen.Node) []*gen.Node { return []*gen.Node{gen.While(cond(), gen.If(gen.I("d"), s, other()))} }},
		{"if-block-else", func(s *gen.Node) []*gen.Node { return []*gen.Node{gen.If(cond(), gen.Block(s), gen.Clone(s))} }},
	}
	nexts := []func() *gen.Node{
		nil,
		func() *gen.Node { return gen.Ex(gen.Ca(gen.G(gen.I("b")))) },
		func() *gen.Node { return gen.Ex(gen.Ca(gen.Do(gen.Ar(gen.I("b")), "m"))) },
		func() *gen.Node { return gen.Ex(gen.I("z")) },
	}
	for ei, e := range ends {
		for si, st := range stmts {
			for bi, body := range bodies {
				if !c.Next() || c.Tick() {
					continue
				}
				for ni, nx := range nexts {
					for wrap := 0; wrap < 2; wrap++ {
						prog := body.mk(st(e()))
						if nx != nil {
							prog = append(prog, nx())
						}
						if wrap == 1 || si == 0 {
							prog = []*gen.Node{gen.Func("w", nil, prog...)}
						}
						name := fmt.Sprintf("branches:%s:end%d:stmt%d:next%d:wrap%d", body.name, ei, si, ni, wrap)
						c.Cur(name)
						for ci, cfg := range c03Cfgs {
							c.Inc("print_parse_roundtrips")
							c.Inc("braceless_body_roundtrips")
							k, d, _ := c03Check(prog, cfg)
							if k != "" && c.ShrinkOK("br"+k+body.name) {
								pl, _ := json.Marshal(c03Payload{Deep: []int{-3, ei, si, bi, ni, wrap, ci}})
								c.Violate(core.Violation{Kind: k, Config: cfg.String(), Case: name + " " + gen.ShapeProgram(prog), Detail: core.Short(d, 500), Payload: pl, Size: 15})
							}
						}
					}
				}
			}
		}
	}
}

// c03Shared: trees in which ONE node object occurs in two places (a programmatic tree may reuse a
// sub-expression, a statement or a block): both occurrences print like separate copies, in every context pair,
// and a second print of the same tree gives the same text (a node must not remember where it was printed).
func c03Shared(c *core.Ctx) {
	leafs := []func() *gen.Node{
		func() *gen.Node { return gen.Bi("+", gen.I("a"), gen.I("b")) },
		func() *gen.Node { return gen.U("-", gen.I("a")) },
		func() *gen.Node { return gen.As("=", gen.I("x"), gen.I("b")) },
		func() *gen.Node { return gen.F("", nil, gen.Ret(gen.I("a"))) },
		func() *gen.Node { return gen.Ob(gen.I("k"), gen.N("1")) },
		func() *gen.Node { return gen.Po("++", gen.I("n")) },
	}
	n := 0
	for li, lf := range leafs {
		for _, op := range gen.BinOps {
			for _, ctx := range []int{0, 1, 2, 3} {
				n++
				if !c.Mine(int64(n)) || c.Tick() {
					continue
				}
				// the tree with separate copies (what the text must be) and the tree with one shared object
				mkRoot := func(l, r *gen.Node) []*gen.Node {
					switch ctx {
					case 0:
						return []*gen.Node{gen.Ex(gen.Bi(op, l, r))}
					case 1:
						return []*gen.Node{gen.Ex(gen.Ca(gen.I("f"), gen.U("-", l), gen.Bi(op, gen.I("c"), r)))}
					case 2:
						return []*gen.Node{gen.Let("v", gen.Ar(l, gen.Bi(op, r, gen.I("c"))))}
					}
					return []*gen.Node{gen.If(gen.I("c"), gen.Ex(l), gen.Ex(gen.Bi(op, gen.I("d"), r)))}
				}
				for ci, cfg := range c03Cfgs {
					want := compileCfg(toXProgram(mkRoot(lf(), lf())), cfg)
					x := toXProgram(mkRoot(lf(), lf()))
					if !c03ShareOperand(x, ctx) {
						continue
					}
					c.Inc("print_parse_roundtrips")
					c.Inc("shared_node_prints")
					got := compileCfg(x, cfg)
					again := compileCfg(x, cfg)
					k, d := "", ""
					switch {
					case got.Panic != "" && want.Panic == "":
						k, d = "shared-node-panic", got.Panic
					case got.Code != want.Code:
						k, d = "shared-node-prints-differently", fmt.Sprintf("tree with one shared node object prints %q, the same tree with separate copies %q", got.Code, want.Code)
					case again.Code != got.Code:
						k, d = "second-print-differs", fmt.Sprintf("first print %q, second print of the same tree %q", got.Code, again.Code)
					}
					if k != "" && c.ShrinkOK("shared"+k) {
						pl, _ := json.Marshal(c03Payload{Deep: []int{-5, li, ctx, ci}})
						c.Violate(core.Violation{Kind: k, Config: cfg.String(), Case: fmt.Sprintf("shared %s under %s in context %d", gen.Shape(lf()), op, ctx), Detail: core.Short(d, 500), Payload: pl, Size: 8})
					}
				}
			}
		}
	}
}

// c03ShareOperand makes the two operand positions built from the same leaf refer to ONE node object.
func c03ShareOperand(x *ast.Program, ctx int) bool {
	defer func() { recover() }()
	switch ctx {
	case 0:
		b := x.Statements[0].(*ast.ExpressionStatement).Expression.(*ast.BinaryExpression)
		b.Right = b.Left
	case 1:
		call := x.Statements[0].(*ast.ExpressionStatement).Expression.(*ast.CallExpression)
		call.Arguments[1].(*ast.BinaryExpression).Right = call.Arguments[0].(*ast.UnaryExpression).Right
	case 2:
		arr := x.Statements[0].(*ast.LetStatement).Value.(*ast.ArrayLiteral)
		arr.Elements[1].(*ast.BinaryExpression).Left = arr.Elements[0]
	default:
		ifs := x.Statements[0].(*ast.IfStatement)
		ifs.ElseBranch.(*ast.ExpressionStatement).Expression.(*ast.BinaryExpression).Right = ifs.ThenBranch.(*ast.ExpressionStatement).Expression
	}
	return true
}

// c03Idents: names are a dimension of their own for a printer that decides where a blank is needed between
// words: every identifier spelling of the family in every position a name takes in a programmatic tree.
func c03Idents(c *core.Ctx) {
	for ii, n := range gen.Identifiers() {
		if !c.Mine(int64(ii)) || c.Tick() {
			continue
		}
		id := func() *gen.Node { return gen.I(n) }
		progs := [][]*gen.Node{
			{gen.Let(n, gen.Bi("+", id(), gen.N("1")))},
			{gen.Func(n, []string{n, "q"}, gen.Ret(id()))},
			{gen.Ex(gen.As("=", id(), gen.F(n, []string{n}, gen.Ret(gen.U("-", id())))))},
			{gen.Ex(gen.Ob(id(), id()))},
			{gen.For(gen.LetExpr(n, gen.N("0")), gen.Bi("<", id(), gen.N("2")), gen.Po("++", id()), gen.Ex(gen.Ca(id(), id())))},
			{gen.If(id(), gen.Ret(id()), gen.Ex(gen.U("!", id())))},
			{gen.Ex(gen.Do(gen.Do(id(), n), n)), gen.Ex(gen.U("++", id()))},
			{gen.Ret(id()), gen.Ex(gen.Bi("-", gen.U("-", id()), gen.U("--", id())))},
		}
		for pi, prog := range progs {
			c.Cur("identifier " + n)
			for ci, cfg := range c03Cfgs {
				c.Inc("print_parse_roundtrips")
				c.Inc("identifier_roundtrips")
				k, d, _ := c03Check(prog, cfg)
				if k != "" && c.ShrinkOK("ident"+k) {
					pl, _ := json.Marshal(c03Payload{Deep: []int{-4, ii, pi, ci}})
					c.Violate(core.Violation{Kind: k, Config: cfg.String(), Case: "identifier spelling " + n + ": " + gen.ShapeProgram(prog), Detail: core.Short(d, 500), Payload: pl, Size: 12})
				}
			}
		}
	}
}

func c03Run(c *core.Ctx) {
	processWarmup(c)
	c03Shared(c)
	c03Idents(c)
	c03Trivia(c)
	c03Branches(c)
	c03MultiLine(c)
	c03Edited(c)
	c03Deep(c)
	full := c.Thorough()
	holes := gen.Holes(full)
	leaves := gen.Leaves()
	c.Note("holes", fmt.Sprint(len(holes)))
	for depth := 0; depth <= 3; depth++ {
		hs := holes
		if depth == 3 && !full {
			hs = gen.Holes(false)
		}
		gen.Chains(hs, leaves, depth, true, func(e *gen.Node, name string) {
			if !c.Next() || c.Tick() {
				return
			}
			c.Inc("trees")
			needsParens := false
			for place := 0; place < 3; place++ {
				prog := c03Place(e, place)
				for ci, cfg := range c03Cfgs {
					c.Inc("print_parse_roundtrips")
					c.Cur(name)
					k, d, code := c03Check(prog, cfg)
					if place == 0 && ci == 0 && code != "" {
						// non-trivial: the printer had to add parentheses that are not grouping nodes
						if countByte(code, '(') > countByte(gen.RenderCompact(gen.UnparseProgram(prog, false)), '(')-0 && false {
							needsParens = true
						}
						if treeNeedsParens(e) {
							needsParens = true
						}
					}
					if k != "" && os.Getenv("XMC_DEBUG") != "" {
						c.Inc(fmt.Sprintf("dbg:%s:p%d:%s:%s", k, place, cfg, code))
					}
					if k != "" && c.ShrinkOK(k) {
						pl, _ := json.Marshal(c03Payload{Chain: name, Place: place, Depth: depth, Full: full, Cfg: ci})
						c.Violate(core.Violation{Kind: k, Config: cfg.String(), Case: fmt.Sprintf("place%d:%s %s", place, name, gen.ShapeProgram(prog)), Detail: d, Payload: pl, Size: depth*10 + place})
					}
				}
			}
			if needsParens {
				c.Inc("trees_needing_parentheses")
			}
			if c.Count0()%9001 == 0 {
				c.Sample(name + " => " + gen.Shape(e))
			}
		})
		if !c.Tick() {
			c.SetMax("depth_completed", int64(depth))
		}
	}
}

// c03Edited: a tree that has been printed and is then edited in place (the operator of a binary node
// replaced) prints like a freshly built tree with that operator. Nodes may not remember what they were.
func c03Edited(c *core.Ctx) {
	for _, op1 := range gen.BinOps {
		for _, op2 := range gen.BinOps {
			for nest := 0; nest < 2; nest++ {
				if !c.Next() || c.Tick() {
					continue
				}
				mk := func(root, inner string) *gen.Node {
					if nest == 0 {
						return gen.Bi(root, gen.Bi(inner, gen.I("a"), gen.I("b")), gen.I("c"))
					}
					return gen.Bi(root, gen.I("a"), gen.Bi(inner, gen.I("b"), gen.I("c")))
				}
				for _, cfg := range c03Cfgs[:2] {
					x := toXProgram([]*gen.Node{gen.Ex(mk(op1, op2))})
					if co := compileCfg(x, cfg); co.Panic != "" {
						continue
					}
					root := x.Statements[0].(*ast.ExpressionStatement).Expression.(*ast.BinaryExpression)
					var inner *ast.BinaryExpression
					if nest == 0 {
						inner = root.Left.(*ast.BinaryExpression)
					} else {
						inner = root.Right.(*ast.BinaryExpression)
					}
					for _, op3 := range gen.BinOps {
						for which := 0; which < 2; which++ {
							r, in := op1, op2
							target := root
							if which == 0 {
								r = op3
							} else {
								in = op3
								target = inner
							}
							target.Token = tk(punctType[op3], op3)
							target.Operator = op3
							c.Inc("print_parse_roundtrips")
							c.Inc("edited_tree_prints")
							got := compileCfg(x, cfg)
							want := compileCfg(toXProgram([]*gen.Node{gen.Ex(mk(r, in))}), cfg)
							if got.Code != want.Code && c.ShrinkOK("edited") {
								pl, _ := json.Marshal(c03Payload{Edited: true})
								c.Violate(core.Violation{Kind: "edited-tree-prints-differently", Config: cfg.String(), Payload: pl,
									Case:   fmt.Sprintf("print %s, set the %s operator to %s, print again", gen.Shape(mk(op1, op2)), []string{"root", "inner"}[which], op3),
									Detail: fmt.Sprintf("edited tree prints %q, a freshly built tree of the same shape prints %q", got.Code, want.Code), Size: 5})
							}
							// restore
							if which == 0 {
								target.Token, target.Operator = tk(punctType[op1], op1), op1
							} else {
								target.Token, target.Operator = tk(punctType[op2], op2), op2
							}
							_ = compileCfg(x, cfg)
						}
					}
				}
			}
		}
	}
}

func countByte(s string, b byte) int {
	n := 0
	for i := 0; i < len(s); i++ {
		if s[i] == b {
			n++
		}
	}
	return n
}

// treeNeedsParens: some operand has lower precedence than its context requires (so a correct printer
// must emit parentheses that are not in the tree).
func treeNeedsParens(n *gen.Node) bool {
	if n == nil {
		return false
	}
	toks := gen.UnparseProgram([]*gen.Node{gen.Ex(n)}, false)
	grp := 0
	for _, t := range toks {
		if t.Role == "group(" {
			grp++
		}
	}
	return grp > 0
}

func c03Replay(pl json.RawMessage) (string, []core.Violation) {
	var p c03Payload
	json.Unmarshal(pl, &p)
	var out string
	var vs []core.Violation
	if len(p.Deep) > 0 {
		cx := core.NewCtx("C03", "thorough", 0, 0, 1, time.Now().Add(10*time.Minute))
		if p.Deep[0] == -5 {
			c03Shared(cx)
			return "shared-node family re-run", cx.Violations()
		}
		if p.Deep[0] == -4 {
			c03Idents(cx)
			return "identifier family re-run", cx.Violations()
		}
		if p.Deep[0] == -3 {
			c03Branches(cx)
			return "brace-less body family re-run", cx.Violations()
		}
		if p.Deep[0] == -2 {
			c03Trivia(cx)
			return "trivia family re-run", cx.Violations()
		}
		if p.Deep[0] < 0 {
			c03MultiLine(cx)
			return "multi-line literal family re-run", cx.Violations()
		}
		c03Deep(cx)
		return "deep-chain family re-run", cx.Violations()
	}
	if p.Edited {
		cx := core.NewCtx("C03", "quick", 0, 0, 1, time.Now().Add(10*time.Minute))
		c03Edited(cx)
		return "edited-tree family re-run", cx.Violations()
	}
	gen.Chains(gen.Holes(p.Full), gen.Leaves(), p.Depth, true, func(e *gen.Node, name string) {
		if name != p.Chain {
			return
		}
		prog := c03Place(e, p.Place)
		k, d, code := c03Check(prog, c03Cfgs[p.Cfg])
		out += fmt.Sprintf("tree %s printed %q\n", gen.ShapeProgram(prog), code)
		if k != "" {
			vs = append(vs, core.Violation{Kind: k, Config: c03Cfgs[p.Cfg].String(), Case: name, Detail: d})
		}
	})
	return out, vs
}

func init() {
	core.Register(&core.PropSpec{
		ID: "C03", Level: "exploration",
		Rule:     "every chain of 0..3 nested (constructor, operand position) contexts — 4 prefix, 2 postfix, 13 binary x 2 sides, 3 assignment x 2 sides, callee, arguments, member object, index, array/object elements, function body, explicit group — around each of 9 leaf kinds, built programmatically as ast nodes WITHOUT grouping nodes (callee/object positions call-level-or-tighter, assignment/update targets identifier or member, as the property states); each tree placed as expression statement, let initialiser and call argument; printed compact / pretty / pretty without semicolons, re-parsed by xjs, shapes compared, and printed again (fixed point). quick: depth 3 over operator representatives (one per level and role); thorough: all operators. non-trivial = tree in which a correct printer must add parentheses Added families: multi-line literal leaves in 10 statement places incl. return; edited trees (print, replace the operator of the root or inner binary node in place for every operator triple, print again, compare with a freshly built tree); long programmatic chains (left-deep, right-deep, zig-zag over 7 operator cycles) of 9..129 (513 thorough) nodes; brace-less bodies: 11 body positions of if/else/while/for (nested too) x 5 simple statements x 12 expression endings (every class of final byte incl. the } of object literals and function expressions) x 4 followers x in/outside a function; identifier spellings (about 230) in 8 tree positions; shared nodes: one node object in two operand positions (6 sub-trees x 13 operators x 4 context pairs) prints like separate copies, and the same tree prints the same twice.",
		Assume:   []string{"xjs's own parser (checked against ECMAScript by C02) is the reader"},
		QuickSec: 300, ThorSec: 1800, Run: c03Run, Replay: c03Replay,
		Evals: "print_parse_roundtrips", Nontriv: "trees_needing_parentheses",
	})
}
