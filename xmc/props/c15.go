package props

import (
	"encoding/json"
	"fmt"
	"strings"

	"xmc/core"
	"xmc/gen"
	"xmc/ref"
)

// C15: the pretty printer keeps statement-level comments; compact output has none.
// Universe: skeleton programs (statement families, nesting chains) laid out one statement per line; at
// every statement boundary (before a statement of a list, before the closing brace of a list, before the
// end of input) every decoration of the alphabet: trailing comment, own-line comments, blank-line runs.

type c15Item struct {
	Kind byte   // 'T' trailing comment on the previous line, 'C' own-line comment, 'B' blank lines
	Text string // comment text (T, C)
	N    int    // number of blank lines (B)
}

type c15Payload struct {
	Src     string `json:"src"`
	Plain   string `json:"plain"`
	Rebuilt bool   `json:"rebuilt_tokens,omitempty"`
}

// c15Lines lays a token list out one statement per line and returns the text pieces between which
// decorations can be inserted: piece[i] is the text up to (not including the line break before) slot i;
// the last piece ends the program. sibling[i] tells whether slot i separates two sibling statements.
func c15Layout(toks []gen.Tok) (pieces []string, sibling []bool) {
	var cur strings.Builder
	isCloser := func(t gen.Tok) bool {
		return t.Text == "}" && (t.Role == "block}" || t.Role == "body}" || t.Role == "fnexpr}")
	}
	isOpener := func(t gen.Tok) bool { return t.Text == "{" && (t.Role == "block{" || t.Role == "body{") }
	for i, t := range toks {
		slot := false
		sib := false
		if i > 0 {
			p := toks[i-1]
			stmtEnd := p.OptSemi || (p.Text == "}" && (p.Role == "block}" || p.Role == "body}"))
			switch {
			case isCloser(t):
				slot = true
			case t.StmtStart && isOpener(p):
				slot = true
			case t.StmtStart && stmtEnd:
				slot, sib = true, true
			}
		} else {
			slot = true // before the first statement of the program
		}
		if slot {
			pieces = append(pieces, cur.String())
			sibling = append(sibling, sib)
			cur.Reset()
		} else if i > 0 {
			cur.WriteByte(' ')
		}
		cur.WriteString(t.Text)
	}
	pieces = append(pieces, cur.String()) // slot before the end of input
	sibling = append(sibling, false)
	return
}

// c15Render builds the source text: deco[i] is inserted at slot i (between piece i and piece i+1...).
// pieces[0] is the (empty) text before the first statement.
func c15Render(pieces []string, deco map[int][]c15Item) string {
	var b strings.Builder
	for i, p := range pieces {
		// piece i ends right before slot i's line break; pieces[0] is empty (program start)
		b.WriteString(p)
		items := deco[i]
		if i == len(pieces)-1 && len(items) == 0 {
			break
		}
		first := true
		for _, it := range items {
			switch it.Kind {
			case 'T':
				if b.Len() > 0 {
					b.WriteString(" ")
				}
				b.WriteString("//" + it.Text)
			case 'C':
				if b.Len() > 0 && (first || true) {
					b.WriteString("\n")
				}
				b.WriteString("//" + it.Text)
			case 'B':
				for k := 0; k < it.N; k++ {
					b.WriteString("\n")
				}
			}
			first = false
		}
		if i < len(pieces)-1 && b.Len() > 0 {
			if c15Join[i] && len(items) == 0 {
				b.WriteString(" ") // line-sharing layout: this boundary is not a line break
			} else {
				b.WriteString("\n")
			}
		}
	}
	return b.String()
}

// c15Join: boundaries (slots) that are laid out as a blank instead of a line break when they carry no
// decoration: the first statement of a block on the line of its "{", the "}" on the line of the last
// statement, several statements on one line.
var c15Join map[int]bool

type c15Comment struct {
	Text string
	Next int // ordinal of the next significant token (';' ignored); EOF has the largest ordinal
}

// c15Scan lists comments with the token they precede, and which sibling gaps contain a blank line.
func c15Scan(src string) (comments []c15Comment, blankBefore map[int]bool, nsig int, err error) {
	toks, err := ref.Tokenize(src)
	if err != nil {
		return nil, nil, 0, err
	}
	blankBefore = map[int]bool{}
	ord := 0
	prevEnd := 0
	for _, t := range toks {
		if t.Kind == ref.TPunct && t.Text == ";" {
			// comments in front of a ';' (never produced here) are attributed to the following token
			for _, c := range t.Comments {
				comments = append(comments, c15Comment{strings.TrimRight(c.Text, " \t\r"), ord})
			}
			prevEnd = t.End
			continue
		}
		for _, c := range t.Comments {
			comments = append(comments, c15Comment{strings.TrimRight(c.Text, " \t\r"), ord})
		}
		if hasBlankLine(src[prevEnd:t.Off]) {
			blankBefore[ord] = true
		}
		prevEnd = t.End
		ord++
	}
	return comments, blankBefore, ord, nil
}

// hasBlankLine: the gap contains a line made of white space only (between two line feeds).
func hasBlankLine(gap string) bool {
	lines := strings.Split(gap, "\n")
	for i := 1; i+1 < len(lines); i++ {
		if strings.TrimSpace(lines[i]) == "" {
			return true
		}
	}
	return false
}

var c15Pretty = []Cfg{{Pretty: true, Indent: -2, Semi: -1}, {Pretty: true, Indent: 4, Semi: 0}, {Pretty: true, Indent: -1, Semi: 1}}

// c15Check: plain is the undecorated layout of the same program.
func c15Check(src, plain string, siblingOrd map[int]bool) (kind, detail string) {
	op := parseMode(plain, Mode{})
	if op.Panic != "" || op.Err != nil {
		return "", "" // skeleton not accepted: outside the domain
	}
	// the tree is printed only after its builder has built and run another parser on a commented input:
	// comments belong to the tree, later use of the builder must not touch them
	pbShared := newPB(Mode{})
	o := parseWith(pbShared, src)
	parseWith(pbShared, "// first\n\n\nq ; // second\n{ // third\n\n// fourth\n}\n// fifth\n\n")
	parseWith(pbShared, "z // sixth")
	if o.Panic != "" {
		return "panic", o.Panic
	}
	if o.Err != nil {
		return "comment-breaks-parse", fmt.Sprintf("the program parses without the comments, with them: %v", o.Errs[0].Message)
	}
	// compact: byte-identical to the comment-free program, no comment text
	cc, cp := compileCfg(o.Prog, Cfg{}), compileCfg(op.Prog, Cfg{})
	if cc.Panic != "" {
		return "panic", cc.Panic
	}
	if cc.Code != cp.Code {
		return "compact-differs", fmt.Sprintf("compact output with comments %q, without %q", cc.Code, cp.Code)
	}
	if strings.Contains(cc.Code, "//") {
		return "compact-has-comment", fmt.Sprintf("compact output %q", cc.Code)
	}
	wantC, wantBlank, nsig, err := c15Scan(src)
	if err != nil {
		return "", ""
	}
	for _, cfg := range c15Pretty {
		co := compileCfg(o.Prog, cfg)
		if co.Panic != "" {
			return "panic", cfg.String() + ": " + co.Panic
		}
		gotC, gotBlank, gsig, err := c15Scan(co.Code)
		if err != nil {
			return "pretty-unreadable", fmt.Sprintf("%s output %q: %v", cfg, co.Code, err)
		}
		adj := func(ord int) int { return ord }
		_ = adj
		if gsig != nsig && cfg.Semi != 0 {
			return "pretty-token-count", fmt.Sprintf("%s output %q has %d significant tokens, the source %d", cfg, co.Code, gsig, nsig)
		}
		if len(gotC) != len(wantC) {
			return "comment-count", fmt.Sprintf("%s: source has %d comments %v, output %q has %d %v", cfg, len(wantC), c15Texts(wantC), co.Code, len(gotC), c15Texts(gotC))
		}
		for i := range wantC {
			if gotC[i].Text != wantC[i].Text {
				return "comment-text", fmt.Sprintf("%s: comment %d is %q in the source and %q in the output %q", cfg, i, wantC[i].Text, gotC[i].Text, co.Code)
			}
			if gotC[i].Next != wantC[i].Next && gsig == nsig {
				return "comment-moved", fmt.Sprintf("%s: comment %q precedes significant token #%d in the source and #%d in the output %q", cfg, wantC[i].Text, wantC[i].Next, gotC[i].Next, co.Code)
			}
		}
		if gsig == nsig {
			for ord := range siblingOrd {
				if wantBlank[ord] != gotBlank[ord] {
					return "blank-line-separation", fmt.Sprintf("%s: blank line before sibling statement at token #%d: source %v, output %v (%q)", cfg, ord, wantBlank[ord], gotBlank[ord], co.Code)
				}
			}
		}
	}
	return "", ""
}

func c15Texts(cs []c15Comment) []string {
	var s []string
	for _, c := range cs {
		s = append(s, c.Text)
	}
	return s
}

// c15Neutral: replacing every comment text by "c" changes the pretty output only inside the comments.
func c15Neutral(src string) (kind, detail string) {
	toks, err := ref.Tokenize(src)
	if err != nil {
		return "", ""
	}
	replace := func(text string, ts []ref.RTok) string {
		var b strings.Builder
		last := 0
		for _, t := range ts {
			for _, c := range t.Comments {
				b.WriteString(text[last : c.Off+2])
				b.WriteString("c")
				last = c.Off + 2 + len(c.Text)
			}
		}
		b.WriteString(text[last:])
		return b.String()
	}
	neutral := replace(src, toks)
	o1, o2 := parseMode(src, Mode{}), parseMode(neutral, Mode{})
	if o1.Panic != "" || o2.Panic != "" || o1.Err != nil || o2.Err != nil {
		return "", ""
	}
	for _, cfg := range c15Pretty[:2] {
		a, b := compileCfg(o1.Prog, cfg), compileCfg(o2.Prog, cfg)
		if a.Panic != "" || b.Panic != "" {
			return "panic", a.Panic + b.Panic
		}
		ta, err := ref.Tokenize(a.Code)
		if err != nil {
			return "pretty-unreadable", fmt.Sprintf("%s output %q: %v", cfg, a.Code, err)
		}
		if got := replace(a.Code, ta); got != b.Code {
			return "comment-content-alters-code", fmt.Sprintf("%s: output %q; with every comment text replaced by \"c\" in the source the output is %q", cfg, a.Code, b.Code)
		}
	}
	return "", ""
}

var c15TextsAll = []string{" c1", "", "   ", "\tcode();", " a\tb", " x\vy\fz", " c\\", "\\", " x = \"q\" // y; {", " it's", " trailing  ", " `tick", "}", "/ triple", " \"dq"}

func c15Decorations(full bool) [][]c15Item {
	C := func(t string) c15Item { return c15Item{Kind: 'C', Text: t} }
	T := func(t string) c15Item { return c15Item{Kind: 'T', Text: t} }
	B := func(n int) c15Item { return c15Item{Kind: 'B', N: n} }
	var ds [][]c15Item
	for _, t := range c15TextsAll {
		ds = append(ds, []c15Item{C(t)}, []c15Item{T(t)})
	}
	ds = append(ds,
		[]c15Item{B(1)}, []c15Item{B(3)},
		[]c15Item{C(" c1"), C(" c2")}, []c15Item{T(" t1"), C(" c2")},
		[]c15Item{B(1), C(" c1")}, []c15Item{C(" c1"), B(1)}, []c15Item{B(1), C(" c1"), B(1)},
		[]c15Item{C(" c1"), B(1), C(" c2")}, []c15Item{T(" t1"), B(1), C(" c2")}, []c15Item{T(" t1"), B(1)},
		[]c15Item{B(3), C(" c1")}, []c15Item{C(" c1"), B(3)}, []c15Item{B(2), C(" x = \"q\" // y; {"), B(2)},
	)
	if full {
		ds = append(ds,
			[]c15Item{C(" c1"), C(" c2"), C(" c3")}, []c15Item{T(" t1"), C(" c2"), B(1), C(" c3")},
			[]c15Item{B(1), C(" c1"), B(1), C(" c2"), B(1)}, []c15Item{T(" `"), C(" \""), C(" '")},
		)
	}
	return ds
}

// c15Unicode: comment texts with every code point of the block that contains the two JavaScript line
// separators (U+2000..U+203F without U+2028/U+2029), and one code point of every UTF-8 length.
func c15Unicode(c *core.Ctx) {
	var cps []rune
	for r := rune(0x2000); r <= 0x203F; r++ {
		if r != 0x2028 && r != 0x2029 {
			cps = append(cps, r)
		}
	}
	cps = append(cps, 0xA0, 0xE9, 0x7FF, 0x800, 0xFEFF, 0xFFFD, 0x1F600, 0x10FFFF, 0x85, 0x2060, 0x3000)
	skel := []string{"a ;", "if ( c ) {", "b ;", "}"}
	for i, r := range cps {
		if !c.Mine(int64(i)) {
			continue
		}
		text := " x" + string(r) + "y z"
		for slot := 0; slot <= len(skel); slot++ {
			for _, trailing := range []bool{false, true} {
				if trailing && slot == 0 {
					continue
				}
				var lines []string
				for j, l := range skel {
					if j == slot && !trailing {
						lines = append(lines, "//"+text)
					}
					if j+1 == slot && trailing {
						l += " //" + text
					}
					lines = append(lines, l)
				}
				if slot == len(skel) && !trailing {
					lines = append(lines, "//"+text)
				}
				src := strings.Join(lines, "\n")
				plain := strings.Join(skel, "\n")
				c.Cur(src)
				c.Inc("decorated_programs")
				c.Inc("programs_with_comments")
				c.Inc("unicode_comment_programs")
				k, d := c15Check(src, plain, map[int]bool{})
				if k == "" {
					k, d = c15Neutral(src)
				}
				if k != "" && c.ShrinkOK("u"+k) {
					pl, _ := json.Marshal(c15Payload{src, plain, pbRebuildTokens})
					c.Violate(core.Violation{Kind: k, Config: fmt.Sprintf("comment text with U+%04X", r), Case: fmt.Sprintf("%q", src), Detail: d, Payload: pl, Size: 30, Sig: k + "|" + fmt.Sprintf("U+%04X", r)})
				}
			}
		}
	}
}

func c15Run(c *core.Ctx) {
	processWarmup(c)
	c15Unicode(c)
	decos := c15Decorations(c.Thorough())
	pairDecos := [][]c15Item{decos[0], decos[1], {{Kind: 'B', N: 1}}, {{Kind: 'C', Text: " c1"}, {Kind: 'B', N: 1}}, {{Kind: 'T', Text: " `tick"}}}
	report := func(k, d, src, plain string, size int, class string) {
		if k == "" || !c.ShrinkOK(k) {
			return
		}
		pl, _ := json.Marshal(c15Payload{src, plain, pbRebuildTokens})
		// signature: failure kind + boundary kind + decoration shape (the smallest program of the class is kept)
		c.Violate(core.Violation{Kind: k, Config: class, Case: fmt.Sprintf("%q", src), Detail: d, Payload: pl, Size: size, Sig: k + "|" + class})
	}
	shape := func(d []c15Item) string {
		var b strings.Builder
		for _, it := range d {
			b.WriteByte(it.Kind)
			if it.Kind == 'B' {
				fmt.Fprint(&b, it.N)
			} else if strings.TrimSpace(it.Text) != "c1" && strings.TrimSpace(it.Text) != "c2" && strings.TrimSpace(it.Text) != "t1" && strings.TrimSpace(it.Text) != "c3" {
				fmt.Fprintf(&b, "%q", it.Text)
			}
		}
		return b.String()
	}
	runProg := func(prog []*gen.Node, pairs bool) {
		toks := gen.UnparseProgram(prog, false)
		for _, t := range toks {
			if t.Text == "`t`" {
				return // multi-line literal handling is C06/C07's business; keep skeletons single-line per token
			}
		}
		pieces, sibling := c15Layout(toks)
		plain := c15Render(pieces, nil)
		// ordinals of the significant tokens that start a sibling statement
		sibOrd := map[int]bool{}
		{
			ord := 0
			slot := 0
			// walk tokens again in the same order as c15Layout to map slots to ordinals
			for i, t := range toks {
				isSlot := false
				if i == 0 {
					isSlot = true
				} else {
					p := toks[i-1]
					stmtEnd := p.OptSemi || (p.Text == "}" && (p.Role == "block}" || p.Role == "body}"))
					closer := t.Text == "}" && (t.Role == "block}" || t.Role == "body}" || t.Role == "fnexpr}")
					opener := p.Text == "{" && (p.Role == "block{" || p.Role == "body{")
					isSlot = closer || (t.StmtStart && (opener || stmtEnd))
				}
				if isSlot {
					if sibling[slot] {
						sibOrd[ord] = true
					}
					slot++
				}
				if t.Text != ";" {
					ord++
				}
			}
		}
		c.Cur(plain)
		nslots := len(pieces)
		slotKind := func(s int) string {
			switch {
			case s == nslots-1:
				return "before-end"
			case s == 0:
				return "before-first"
			case strings.HasPrefix(pieces[s+1], "}"):
				return "before-closing-brace"
			case sibling[s]:
				return "between-siblings"
			}
			return "after-opening-brace"
		}
		for s := 0; s < nslots; s++ {
			for _, d := range decos {
				if s == 0 && d[0].Kind == 'T' {
					continue // nothing to trail at the start of the program
				}
				src := c15Render(pieces, map[int][]c15Item{s: d})
				c.Inc("decorated_programs")
				k, dd := c15Check(src, plain, sibOrd)
				if k == "" {
					k, dd = c15Neutral(src)
				}
				report(k, dd, src, plain, len(toks)+len(d), slotKind(s)+":"+shape(d))
				hasComment := false
				for _, it := range d {
					if it.Kind != 'B' {
						hasComment = true
					}
				}
				if hasComment {
					c.Inc("programs_with_comments")
				}
			}
		}
		if pairs {
			for s1 := 0; s1 < nslots; s1++ {
				for s2 := s1 + 1; s2 < nslots; s2++ {
					for _, d1 := range pairDecos {
						for _, d2 := range pairDecos {
							if s1 == 0 && d1[0].Kind == 'T' {
								continue
							}
							src := c15Render(pieces, map[int][]c15Item{s1: d1, s2: d2})
							c.Inc("decorated_programs")
							c.Inc("programs_with_comments")
							k, dd := c15Check(src, plain, sibOrd)
							if k == "" {
								k, dd = c15Neutral(src)
							}
							report(k, dd, src, plain, len(toks)+4, slotKind(s1)+":"+shape(d1)+"+"+slotKind(s2)+":"+shape(d2))
						}
					}
				}
			}
		}
		// plugin-built tokens: the same skeleton through builders whose token interceptor rebuilds identifier and
		// keyword tokens with NewTokenAt after next() (5 decorations at every boundary)
		pbRebuildTokens = true
		for s := 0; s < nslots; s++ {
			for _, d := range pairDecos {
				if s == 0 && d[0].Kind == 'T' {
					continue
				}
				src := c15Render(pieces, map[int][]c15Item{s: d})
				c.Inc("decorated_programs")
				c.Inc("rebuilt_token_programs")
				k, dd := c15Check(src, plain, sibOrd)
				if k != "" {
					report("plugin-token-"+k, "with a token interceptor that rebuilds identifier and keyword tokens through NewTokenAt after next(): "+dd, src, plain, len(toks)+len(d)+2, slotKind(s)+":"+shape(d)+" (rebuilt tokens)")
				}
			}
		}
		pbRebuildTokens = false
		// line-sharing layouts: each single inner boundary, and all of them, without a line break
		if nslots > 2 {
			var joinSets []map[int]bool
			all := map[int]bool{}
			for j := 1; j < nslots-1; j++ {
				joinSets = append(joinSets, map[int]bool{j: true})
				all[j] = true
			}
			if nslots > 3 {
				joinSets = append(joinSets, all)
			}
			for ji, J := range joinSets {
				c15Join = J
				plainJ := c15Render(pieces, nil)
				for s := 0; s < nslots; s++ {
					for _, d := range pairDecos {
						if s == 0 && d[0].Kind == 'T' {
							continue
						}
						src := c15Render(pieces, map[int][]c15Item{s: d})
						c.Inc("decorated_programs")
						c.Inc("line_sharing_layouts")
						k, dd := c15Check(src, plainJ, sibOrd)
						if k == "" {
							k, dd = c15Neutral(src)
						}
						jn := "one boundary on one line"
						if ji == len(joinSets)-1 && nslots > 3 {
							jn = "all other boundaries on one line"
						}
						report(k, dd, src, plainJ, len(toks)+len(d)+1, slotKind(s)+":"+shape(d)+" ("+jn+")")
					}
				}
				c15Join = nil
			}
		}
		if c.Count0()%211 == 0 {
			c.Sample(c15Render(pieces, map[int][]c15Item{nslots - 1: decos[0], nslots / 2: decos[1]}))
		}
	}
	level := 1
	gen.Programs(level, func(prog []*gen.Node, name string) {
		if !c.Next() || c.Tick() {
			return
		}
		c.Inc("skeletons")
		toks := len(gen.UnparseProgram(prog, false))
		runProg(prog, toks <= 14 || c.Thorough())
	})
	depth := 2
	if c.Thorough() {
		depth = 3
	}
	for d := 1; d <= depth; d++ {
		ns := gen.Nesters(d <= 2)
		gen.NestChains(ns, d, func(prog []*gen.Node, name string) {
			if !c.Next() || c.Tick() {
				return
			}
			c.Inc("skeletons")
			runProg(prog, d == 1 || (c.Thorough() && d == 2))
		})
		if !c.Expired() {
			c.SetMax("nesting_depth_completed", int64(d))
		}
	}
}

func c15Replay(pl json.RawMessage) (string, []core.Violation) {
	var p c15Payload
	json.Unmarshal(pl, &p)
	out := fmt.Sprintf("decorated source %q", p.Src)
	pbRebuildTokens = p.Rebuilt
	defer func() { pbRebuildTokens = false }()
	// sibling ordinals cannot be rebuilt from text alone: use every ordinal whose gap differs only if both
	// texts agree on being statement starts; replay checks comments + compact + neutrality + blank lines at
	// every token that starts a line in the plain layout
	sib := map[int]bool{}
	if toks, err := ref.Tokenize(p.Plain); err == nil {
		ord := 0
		for i, t := range toks {
			if t.Kind == ref.TPunct && t.Text == ";" {
				continue
			}
			if i > 0 && t.NL && t.Text != "}" && t.Kind != ref.TEOF {
				prev := toks[i-1]
				if prev.Text == ";" || prev.Text == "}" {
					sib[ord] = true
				}
			}
			ord++
		}
	}
	k, d := c15Check(p.Src, p.Plain, sib)
	if k == "" {
		k, d = c15Neutral(p.Src)
	}
	if k != "" {
		return out, []core.Violation{{Kind: k, Case: fmt.Sprintf("%q", p.Src), Detail: d}}
	}
	return out, nil
}

func init() {
	core.Register(&core.PropSpec{
		ID: "C15", Level: "exploration",
		Rule:     "skeleton programs (statement families; nesting chains of depth <= 2, 3 thorough, over blocks / if-else-loop blocks / function declarations / function expressions in every expression position) laid out one statement per line; at EVERY statement boundary (before each statement of a list, before each closing brace of a list, before the end of input) every decoration of the alphabet (own-line or trailing comment with each of 8 texts incl. code-like text, quotes, backtick, //, trailing spaces; blank-line runs 1 and 3; 13 mixed sequences of comments and blank lines), singly at every boundary and pairwise at every two boundaries for small skeletons. Oracle (independent tokenizer R-tok on source and output): the comment list of each pretty output (3 option sets) has the same texts (modulo trailing white space) in the same order, each in front of the same significant token (';' ignored); a blank line separates two sibling statements in the output iff it does in the source; compact output is byte-identical to the compact output of the comment-free program and contains no comment; replacing every comment text by a neutral one changes the pretty output only inside the comments. non-trivial = decorated programs containing at least one comment Added: comment texts with every code point of U+2000..U+203F except U+2028/U+2029 and one code point per UTF-8 length, own-line and trailing, at every boundary of a small skeleton; empty and blank-only comment texts. Line-sharing layouts (round 11): every skeleton again with each single inner boundary, and with all boundaries other than the decorated one, laid out as a blank instead of a line break (first statement on the line of its opening brace, closing brace on the line of the last statement, several statements on one line), 5 decorations at every boundary. Plugin-built tokens (round 12): every skeleton again (5 decorations at every boundary) through builders whose token interceptor rebuilds identifier and keyword tokens with NewTokenAt after next().",
		Assume:   []string{"comments are compared modulo trailing white space", "blank-line preservation is required between sibling statements only (not after an opening or before a closing brace)", "multi-line literals are exercised by C06/C07, not here"},
		QuickSec: 240, ThorSec: 1800, Run: c15Run, Replay: c15Replay,
		Evals: "decorated_programs", Nontriv: "programs_with_comments",
	})
}
