package props

import (
	"encoding/json"
	"fmt"
	"os"
	"os/exec"
	"path/filepath"
	"regexp"
	"strconv"
	"strings"
	"time"

	"github.com/xjslang/xjs/ast"
	"github.com/xjslang/xjs/compiler"
	"github.com/xjslang/xjs/debug"
	"github.com/xjslang/xjs/lexer"
	"github.com/xjslang/xjs/parser"
	"github.com/xjslang/xjs/token"

	"xmc/core"
	"xmc/instr"
)

// C14: instances are isolated and results deterministic, also under concurrency.
// (H) operation histories on two builder stacks and two compilers: every observation must equal the
//     observation of the same configuration on fresh instances used alone;
// (S) schedules: the scenario jobs of xmc/sjobs under a cooperative scheduler on the overlay-instrumented
//     library, every interleaving up to a preemption bound (cmd/sched);
// (R) declared complement: the same jobs free-running under the race detector (cmd/racep).

// ---------- (H) histories

type c14Op struct {
	Kind string // cfg | new | build (Build+ParseProgram) | make (Build only) | parse (ParseProgram of the pending parser) | kopt | compile | tostring
	Who  int    // builder 0/1, compiler 0/1
	Arg  int
}

func (o c14Op) String() string {
	b := "AB"[o.Who : o.Who+1]
	k := "KL"[o.Who : o.Who+1]
	switch o.Kind {
	case "cfg":
		return b + "." + c14CfgNames[o.Arg]
	case "new":
		return b + "=NewBuilder"
	case "build":
		return fmt.Sprintf("%s.Build(in%d).ParseProgram", b, o.Arg)
	case "make":
		return fmt.Sprintf("p%s=%s.Build(in%d)", b, b, o.Arg)
	case "parse":
		return fmt.Sprintf("p%s.ParseProgram", b)
	case "kopt":
		return k + "." + c14KoptNames[o.Arg]
	case "compile":
		return fmt.Sprintf("%s.Compile(%s)", k, []string{"tree of A", "tree of B", "previous tree of A"}[o.Arg])
	}
	return "debug.ToString(tree of " + "AB"[o.Arg:o.Arg+1] + ")"
}

var c14CfgNames = []string{"RegisterInfix(OP)", "RegisterPostfix(BANG)", "RegisterPrefix(PRE)", "UseStatementInterceptor(s1)", "UseExpressionInterceptor(re-entrant)", "WithTolerantMode", "WithSmartSemicolon", "UseStatementInterceptor(s2)"}
var c14KoptNames = []string{"WithPrettyPrint(3 spaces,no semi)", "WithPrettyPrint()", "WithSourceMap()"}
var c14Inputs = []string{"a OP b * c; x = n BANG", "PRE a\n(b) PRE c", "let x = 1;;\nlet y = 2;;;z", "f(function() { return - -a }) // c\n\n\n// section two\nz BANG OP"}

type c14Builder struct {
	lb    *lexer.Builder
	pb    *parser.Builder
	types map[string]token.Type
	log   []string // which statement interceptor ran, in order (makes their order observable)
}

func newC14Builder() *c14Builder {
	b := &c14Builder{lb: lexer.NewBuilder(), types: map[string]token.Type{}}
	b.pb = parser.NewBuilder(b.lb)
	return b
}

// plugToken registers a token type and installs a token interceptor that retypes the identifier of that
// spelling. The closure captures only immutable values: a lexer built earlier is not affected by it (tokens
// are read lazily during ParseProgram, so an interceptor reading mutable harness state would make a
// pending parser depend on later harness calls).
func (b *c14Builder) plugToken(name string) token.Type {
	ty := b.lb.RegisterTokenType(name)
	b.types[name] = ty
	b.lb.UseTokenInterceptor(func(l *lexer.Lexer, next func() token.Token) token.Token {
		t := next()
		if t.Type == token.IDENT && t.Literal == name {
			t.Type = ty
		}
		return t
	})
	return ty
}

func (b *c14Builder) cfg(i int) {
	switch i {
	case 0:
		b.pb.RegisterInfixOperator(b.plugToken("OP"), parser.PRODUCT+1, mkInfix)
	case 1:
		b.pb.RegisterPostfixOperator(b.plugToken("BANG"), mkPostfix)
	case 2:
		b.pb.RegisterPrefixOperator(b.plugToken("PRE"), mkPrefix)
	case 3, 7:
		name := "s1"
		if i == 7 {
			name = "s2"
		}
		b.pb.UseStatementInterceptor(func(p *parser.Parser, next func() ast.Statement) ast.Statement {
			b.log = append(b.log, name)
			return next()
		})
	case 4:
		b.pb.UseExpressionInterceptor(func(p *parser.Parser, next func() ast.Expression) ast.Expression {
			return p.ParseRemainingExpression(p.ParsePrefixExpression())
		})
	case 5:
		b.pb.WithTolerantMode(true)
	case 6:
		b.pb.WithSmartSemicolon(true)
	}
}

func c14Kopt(k *compiler.Compiler, i int) {
	switch i {
	case 0:
		k.WithPrettyPrint(compiler.WithSpaces(3), compiler.WithSemi(false))
	case 1:
		k.WithPrettyPrint()
	case 2:
		k.WithSourceMap()
	}
}

func c14ObserveBuild(b *c14Builder, in int) (string, *ast.Program) {
	b.log = nil
	return c14Observe(b, parseWith(b.pb, c14Inputs[in]))
}

// c14Make builds a parser without running it; c14ObservePending runs it later.
func c14Make(b *c14Builder, in int) (p *parser.Parser, pan string) {
	defer func() {
		if r := recover(); r != nil {
			pan = panicText(r)
		}
	}()
	return b.pb.Build(c14Inputs[in]), ""
}

func c14ObservePending(b *c14Builder, p *parser.Parser) (string, *ast.Program) {
	b.log = nil
	var o ParseOut
	func() {
		defer func() {
			if r := recover(); r != nil {
				o.Panic = panicText(r)
			}
		}()
		o.Parser = p
		o.Prog, o.Err = p.ParseProgram()
		o.Errs = p.Errors()
	}()
	return c14Observe(b, o)
}

func c14Observe(b *c14Builder, o ParseOut) (string, *ast.Program) {
	if o.Panic != "" {
		return "panic: " + o.Panic, nil
	}
	var sb strings.Builder
	fmt.Fprintf(&sb, "err=%v;", o.Err != nil)
	for _, e := range o.Errs {
		fmt.Fprintf(&sb, "%s@%v;", e.Message, e.Range)
	}
	sb.WriteString(dumpTree(o.Prog))
	if o.Parser != nil {
		fmt.Fprintf(&sb, ";ctx=%d,%v", o.Parser.CurrentContext(), o.Parser.IsInFunction())
	}
	fmt.Fprintf(&sb, ";interceptors=%s", strings.Join(b.log, ","))
	return sb.String(), o.Prog
}

func c14ObserveCompile(k *compiler.Compiler, prog *ast.Program) (obs string) {
	defer func() {
		if r := recover(); r != nil {
			obs = "panic: " + panicText(r)
		}
	}()
	r := k.Compile(prog)
	obs = r.Code
	if r.SourceMap != nil {
		obs += "|" + r.SourceMap.Mappings + "|" + strings.Join(r.SourceMap.Names, ",")
	}
	return
}

func safeToString(prog *ast.Program) (s string) {
	defer func() {
		if r := recover(); r != nil {
			s = "panic: " + panicText(r)
		}
	}()
	return debug.ToString(prog)
}

// c14Exec runs a history on shared instances and checks every observation against the solo replay.
func c14Exec(hist []c14Op) (kind, detail string, nobs int) {
	var bs [2]*c14Builder
	var ks [2]*compiler.Compiler
	for i := range bs {
		bs[i] = newC14Builder()
		ks[i] = compiler.New()
	}
	type treeInfo struct {
		prog *ast.Program
		cfg  []int // configuration ops of the builder at build time
		in   int
	}
	var trees [3]*treeInfo // tree of A, tree of B, previous tree of A
	type pendingInfo struct {
		b   *c14Builder // the builder object it was built from (NewBuilder may have replaced it since)
		p   *parser.Parser
		cfg []int
		in  int
	}
	var pending [2]*pendingInfo
	var bcfg [2][]int
	var kcfg [2][]int
	soloTree := func(ti *treeInfo) *ast.Program {
		b := newC14Builder()
		for _, c := range ti.cfg {
			b.cfg(c)
		}
		_, p := c14ObserveBuild(b, ti.in)
		return p
	}
	for step, o := range hist {
		where := fmt.Sprintf("step %d %s", step, o)
		switch o.Kind {
		case "new":
			bs[o.Who] = newC14Builder()
			bcfg[o.Who] = nil
		case "cfg":
			bs[o.Who].cfg(o.Arg)
			bcfg[o.Who] = append(bcfg[o.Who], o.Arg)
		case "kopt":
			c14Kopt(ks[o.Who], o.Arg)
			kcfg[o.Who] = append(kcfg[o.Who], o.Arg)
		case "build":
			got, prog := c14ObserveBuild(bs[o.Who], o.Arg)
			nobs++
			ti := &treeInfo{prog: prog, cfg: append([]int{}, bcfg[o.Who]...), in: o.Arg}
			solo := newC14Builder()
			for _, c := range ti.cfg {
				solo.cfg(c)
			}
			want, _ := c14ObserveBuild(solo, o.Arg)
			if got != want {
				return "build-differs-from-solo", fmt.Sprintf("%s: observed %s; the same builder configuration used alone gives %s", where, core.Short(got, 400), core.Short(want, 400)), nobs
			}
			if o.Who == 0 {
				trees[2] = trees[0]
			}
			trees[o.Who] = ti
		case "make":
			p, pan := c14Make(bs[o.Who], o.Arg)
			if pan != "" {
				return "build-panics", where + ": " + pan, nobs
			}
			pending[o.Who] = &pendingInfo{b: bs[o.Who], p: p, cfg: append([]int{}, bcfg[o.Who]...), in: o.Arg}
		case "parse":
			pi := pending[o.Who]
			if pi == nil {
				continue
			}
			pending[o.Who] = nil
			got, prog := c14ObservePending(pi.b, pi.p)
			nobs++
			// a parser keeps the configuration it was BUILT with, whatever happened to its builder since
			solo := newC14Builder()
			for _, c := range pi.cfg {
				solo.cfg(c)
			}
			want, _ := c14ObserveBuild(solo, pi.in)
			if got != want {
				return "parser-differs-from-solo", fmt.Sprintf("%s (built from in%d with configuration %v): observed %s; a parser built the same way and run at once gives %s", where, pi.in, pi.cfg, core.Short(got, 400), core.Short(want, 400)), nobs
			}
			if o.Who == 0 {
				trees[2] = trees[0]
			}
			trees[o.Who] = &treeInfo{prog: prog, cfg: pi.cfg, in: pi.in}
		case "compile", "tostring":
			ti := trees[o.Arg]
			if ti == nil || ti.prog == nil {
				continue
			}
			before := dumpTree(ti.prog)
			var got, want string
			fresh := soloTree(ti)
			if fresh == nil {
				continue
			}
			if o.Kind == "compile" {
				got = c14ObserveCompile(ks[o.Who], ti.prog)
				k := compiler.New()
				for _, c := range kcfg[o.Who] {
					c14Kopt(k, c)
				}
				want = c14ObserveCompile(k, fresh)
			} else {
				got = safeToString(ti.prog)
				want = c14ObserveCompile(compiler.New(), fresh)
			}
			nobs++
			if strings.HasPrefix(want, "panic:") {
				continue // trees of rejected inputs may be incomplete: C11's subject
			}
			if got != want {
				k := "compile-differs-from-solo"
				if o.Kind == "tostring" {
					k = "tostring-differs-from-compact"
				}
				return k, fmt.Sprintf("%s: observed %q; fresh instances give %q", where, core.Short(got, 300), core.Short(want, 300)), nobs
			}
			if after := dumpTree(ti.prog); after != before {
				return "compile-modifies-tree", fmt.Sprintf("%s: the tree dump differs after the call", where), nobs
			}
			if o.Kind == "compile" {
				// requesting a source map never changes the generated code
				hasMap := false
				k2 := compiler.New()
				for _, c := range kcfg[o.Who] {
					if c == 2 {
						hasMap = true
					} else {
						c14Kopt(k2, c)
					}
				}
				if hasMap {
					plain := c14ObserveCompile(k2, ti.prog)
					if code := strings.SplitN(got, "|", 2)[0]; code != plain {
						return "source-map-changes-code", fmt.Sprintf("%s: code with source map %q, without %q", where, code, plain), nobs
					}
				}
			}
		}
	}
	return "", "", nobs
}

func c14Alphabet(reduced bool) (all []c14Op, observing []c14Op) {
	for w := 0; w < 2; w++ {
		all = append(all, c14Op{Kind: "new", Who: w})
		for a := range c14CfgNames {
			if reduced && (a == 6 || a == 7) {
				continue
			}
			all = append(all, c14Op{Kind: "cfg", Who: w, Arg: a})
		}
		for a := range c14Inputs {
			if reduced && a == 2 {
				continue
			}
			o := c14Op{Kind: "build", Who: w, Arg: a}
			all = append(all, o)
			observing = append(observing, o)
			if a == 1 || a == 3 {
				all = append(all, c14Op{Kind: "make", Who: w, Arg: a})
			}
		}
		o := c14Op{Kind: "parse", Who: w}
		all = append(all, o)
		observing = append(observing, o)
	}
	for w := 0; w < 2; w++ {
		for a := range c14KoptNames {
			if reduced && a == 1 {
				continue
			}
			all = append(all, c14Op{Kind: "kopt", Who: w, Arg: a})
		}
		for a := 0; a < 3; a++ {
			if reduced && a == 2 {
				continue
			}
			o := c14Op{Kind: "compile", Who: w, Arg: a}
			all = append(all, o)
			observing = append(observing, o)
		}
	}
	o := c14Op{Kind: "tostring", Arg: 0}
	all = append(all, o)
	observing = append(observing, o)
	return
}

type c14Payload struct {
	Clause   string   `json:"clause"`
	Hist     []c14Op  `json:"hist,omitempty"`
	Scenario int      `json:"scenario,omitempty"`
	Jobs     int      `json:"jobs,omitempty"`
	Tiny     bool     `json:"tiny,omitempty"`
	Gran     int      `json:"granularity,omitempty"`
	Schedule []int    `json:"schedule,omitempty"`
	Text     []string `json:"text,omitempty"`
}

func c14Histories(c *core.Ctx) {
	depth := 4
	if c.Thorough() {
		depth = 5
	}
	for d := 1; d <= depth; d++ {
		all, obs := c14Alphabet(d >= 5)
		idx := make([]int, d)
		hist := make([]c14Op, d)
		var rec func(i int) bool
		rec = func(i int) bool {
			if i == d {
				if !c.Next() {
					return true
				}
				if c.Tick() {
					return false
				}
				c.Cur(fmt.Sprint(hist))
				c.Inc("histories")
				c.Count("history_steps", int64(d))
				k, dd, n := c14Exec(hist)
				c.Count("observations_compared_with_solo", int64(n))
				if n > 0 {
					c.Inc("histories_with_observations")
				}
				if k != "" && c.ShrinkOK(k) {
					fails := func(x []c14Op) bool { kk, _, _ := c14Exec(x); return kk == k }
					sh := core.ShrinkSeq(append([]c14Op{}, hist...), nil, fails)
					_, dd2, _ := c14Exec(sh)
					if dd2 != "" {
						dd = dd2
					}
					var txt []string
					for _, o := range sh {
						txt = append(txt, o.String())
					}
					pl, _ := json.Marshal(c14Payload{Clause: "history", Hist: sh, Text: txt})
					c.Violate(core.Violation{Kind: k, Case: strings.Join(txt, "; "), Detail: dd, Payload: pl, Size: len(sh)})
				}
				if c.Count0()%100003 == 0 {
					c.Sample(fmt.Sprint(hist))
				}
				return true
			}
			ops := all
			if i == d-1 {
				ops = obs // a history that does not end in an observation adds nothing over its prefix
			}
			for k := range ops {
				idx[i] = k
				hist[i] = ops[k]
				if !rec(i + 1) {
					return false
				}
			}
			return true
		}
		rec(0)
		if !c.Expired() {
			c.SetMax("history_depth_completed", int64(d))
		}
	}
}

// ---------- (S) + (R): instrumented build, schedule exploration, race pass

type c14Build struct {
	dir     string
	sched   string
	racep   string
	stats   *instr.Stats
	problem string
}

var replaceRe = regexp.MustCompile(`(?m)^replace\s+github\.com/xjslang/xjs\s+=>\s+(\S+)`)

func c14RepoPath() string {
	b, err := os.ReadFile(filepath.Join(core.VerifDir, "xmc", "go.mod"))
	if err == nil {
		if m := replaceRe.FindSubmatch(b); m != nil {
			return string(m[1])
		}
	}
	return "/repo"
}

// c14Prepare builds the instrumented scheduler binary and the race binary once per check run (the worker
// of shard 0 builds, the others wait for the marker).
func c14Prepare(c *core.Ctx, runID string) *c14Build {
	work := filepath.Join(core.VerifDir, ".work")
	dir := filepath.Join(work, "c14."+runID)
	b := &c14Build{dir: dir, sched: filepath.Join(dir, "sched"), racep: filepath.Join(dir, "racep")}
	ready, failed := filepath.Join(dir, "ready"), filepath.Join(dir, "failed")
	statsFile := filepath.Join(dir, "stats.json")
	load := func() {
		if bs, err := os.ReadFile(statsFile); err == nil {
			b.stats = &instr.Stats{}
			json.Unmarshal(bs, b.stats)
		}
		if bs, err := os.ReadFile(failed); err == nil {
			b.problem = string(bs)
		}
	}
	if c == nil || c.Shard == 0 {
		// stale directories of earlier runs
		if es, err := os.ReadDir(work); err == nil {
			for _, e := range es {
				if strings.HasPrefix(e.Name(), "c14.") && e.Name() != "c14."+runID {
					if fi, err := e.Info(); err == nil && time.Since(fi.ModTime()) > 30*time.Minute {
						os.RemoveAll(filepath.Join(work, e.Name()))
					}
				}
			}
		}
		os.RemoveAll(dir)
		os.MkdirAll(dir, 0o755)
		fail := func(msg string) *c14Build {
			os.WriteFile(failed, []byte(msg), 0o644)
			b.problem = msg
			return b
		}
		st, ov, err := instr.Instrument(c14RepoPath(), filepath.Join(dir, "ovl"))
		if err != nil {
			return fail("instrumenter: " + err.Error())
		}
		b.stats = st
		bs, _ := json.Marshal(st)
		os.WriteFile(statsFile, bs, 0o644)
		src := filepath.Join(core.VerifDir, "xmc")
		cmd := exec.Command("go", "build", "-tags", "xmcsched", "-overlay", ov, "-o", b.sched, "./cmd/sched")
		cmd.Dir = src
		if out, err := cmd.CombinedOutput(); err != nil {
			return fail("instrumented build failed: " + core.Short(string(out), 1500))
		}
		cmd = exec.Command("go", "build", "-race", "-o", b.racep, "./cmd/racep")
		cmd.Dir = src
		cmd.Env = append(os.Environ(), "CGO_ENABLED=1")
		if out, err := cmd.CombinedOutput(); err != nil {
			os.WriteFile(filepath.Join(dir, "norace"), out, 0o644)
			b.racep = ""
		}
		os.WriteFile(ready, []byte("ok"), 0o644)
		return b
	}
	for i := 0; i < 600; i++ {
		if _, err := os.Stat(ready); err == nil {
			load()
			if _, err := os.Stat(b.racep); err != nil {
				b.racep = ""
			}
			return b
		}
		if _, err := os.Stat(failed); err == nil {
			load()
			return b
		}
		time.Sleep(200 * time.Millisecond)
	}
	b.problem = "timed out waiting for the instrumented build"
	return b
}

type c14Task struct {
	Scenario, Jobs, Gran, Bound int
	Tiny                        bool
}

func (t c14Task) String() string {
	s := fmt.Sprintf("scenario %d, %d jobs, granularity %d, preemption bound %d", t.Scenario, t.Jobs, t.Gran, t.Bound)
	if t.Tiny {
		s += ", tiny inputs"
	}
	return s
}

func c14Tasks(thorough bool) []c14Task {
	var ts []c14Task
	for si := 0; si < 4; si++ {
		// package-level state only: deep bound, also with 3 jobs
		ts = append(ts, c14Task{si, 2, 0, 3, false}, c14Task{si, 3, 0, 2, false})
		// stores and function entries on the rich inputs: one preemption anywhere
		ts = append(ts, c14Task{si, 2, 1, 1, false}, c14Task{si, 2, 2, 1, false})
		// finest granularity on tiny inputs: two preemptions
		switch {
		case si >= 2:
			ts = append(ts, c14Task{si, 2, 2, 2, true})
		case si == 0:
			ts = append(ts, c14Task{si, 2, 1, 2, true})
		case thorough:
			ts = append(ts, c14Task{si, 2, 2, 2, true}) // S2 at this depth costs a minute: thorough only (quick has granularity 1, bound 2)
		}
		// three jobs: one preemption at the finer granularities
		ts = append(ts, c14Task{si, 3, 1, 1, false}, c14Task{si, 3, 2, 1, true})
		// shared-object scenarios: two preemptions at store granularity on the full inputs
		if si > 0 {
			ts = append(ts, c14Task{si, 2, 1, 2, false})
		}
		if thorough {
			ts = append(ts, c14Task{si, 3, 0, 4, false}, c14Task{si, 3, 2, 1, false})
			if si == 0 {
				ts = append(ts, c14Task{si, 2, 1, 2, false})
			}
			if si >= 2 {
				ts = append(ts, c14Task{si, 2, 2, 3, true}, c14Task{si, 3, 2, 2, true})
			}
		}
	}
	return ts
}

type schedResult struct {
	Scenario   string         `json:"scenario"`
	Executions int64          `json:"executions"`
	ByPreempt  map[string]int `json:"executions_by_preemptions"`
	Steps      int64          `json:"schedule_steps"`
	MaxPoints  int            `json:"max_points"`
	Outcomes   int            `json:"distinct_outcomes"`
	Violations []struct {
		Kind     string `json:"kind"`
		Scenario string `json:"scenario"`
		Schedule []int  `json:"schedule"`
		Detail   string `json:"detail"`
	} `json:"violations"`
	Races      []string `json:"races"`
	SharedVars []string `json:"package_variables_touched_by_two_jobs"`
	Exhaustive bool     `json:"exhaustive"`
	Why        string   `json:"why_not_exhaustive"`
	Nondet     int      `json:"nondeterministic_replays"`
}

func c14Schedules(c *core.Ctx, b *c14Build) {
	if b.problem != "" {
		c.Cap("schedule exploration unavailable: " + core.Short(b.problem, 300))
		return
	}
	if b.stats != nil {
		c.Note("instrumentation", fmt.Sprintf("%d functions, %d store sites, %d package-level access sites; package-level variables %v; go statements %d; sync imports %v",
			b.stats.Funcs, b.stats.StoreSites, b.stats.GlobalSites, b.stats.GlobalVars, b.stats.GoStmts, b.stats.SyncImports))
		if b.stats.GoStmts > 0 {
			c.Cap("the library spawns goroutines of its own: the cooperative scheduler does not control them")
		}
	}
	hasSync := b.stats != nil && len(b.stats.SyncImports) > 0
	for _, t := range c14Tasks(c.Thorough()) {
		left := time.Until(c.Deadline)
		if left < 5*time.Second {
			c.Cap("deadline")
			return
		}
		dl := int(left.Seconds()) - 2
		if dl > 600 {
			dl = 600
		}
		cmd := exec.Command(b.sched, strconv.Itoa(t.Scenario), strconv.Itoa(t.Jobs), strconv.Itoa(t.Bound), strconv.Itoa(c.Shard), strconv.Itoa(c.NShards), strconv.Itoa(dl))
		cmd.Env = append(os.Environ(), "GOMAXPROCS=1", "SCHED_GRANULARITY="+strconv.Itoa(t.Gran))
		if t.Tiny {
			cmd.Env = append(cmd.Env, "SCHED_TINY=1")
		}
		c.Cur("schedules: " + t.String())
		t0 := time.Now()
		stop := make(chan struct{})
		go func() { // the sub-process has its own deadline; keep the worker watchdog informed
			for {
				select {
				case <-stop:
					return
				case <-time.After(5 * time.Second):
					c.Cur("schedules: " + t.String() + " (running)")
				}
			}
		}()
		out, err := cmd.Output()
		close(stop)
		c.SetMax(fmt.Sprintf("task_ms:%s", t), time.Since(t0).Milliseconds())
		var r schedResult
		if jerr := json.Unmarshal(lastJSONLine(out), &r); jerr != nil {
			c.Cap(fmt.Sprintf("scheduler run failed (%s): %v", t, err))
			continue
		}
		c.Count("schedules", r.Executions)
		c.Count("schedule_steps", r.Steps)
		c.SetMax("max_scheduling_points", int64(r.MaxPoints))
		for k, v := range r.ByPreempt {
			c.Count("schedules_with_"+k+"_preemptions", int64(v))
		}
		c.SetMax("distinct_outcomes_max", int64(r.Outcomes))
		if c.Shard == 0 {
			c.Inc("schedule_tasks")
		}
		if !r.Exhaustive {
			c.Cap("schedules (" + t.String() + "): " + r.Why)
		}
		if r.Nondet > 0 {
			c.Count("nondeterministic_replays", int64(r.Nondet))
		}
		for _, v := range r.Violations {
			pl, _ := json.Marshal(c14Payload{Clause: "schedule", Scenario: t.Scenario, Jobs: t.Jobs, Tiny: t.Tiny, Gran: t.Gran, Schedule: v.Schedule})
			c.Violate(core.Violation{Kind: "schedule-" + v.Kind, Config: r.Scenario, Case: fmt.Sprintf("%s schedule %v", t, v.Schedule), Detail: v.Detail, Payload: pl,
				Size: len(v.Schedule), Sig: "schedule-" + v.Kind + "|" + r.Scenario})
		}
		for _, v := range r.Races {
			if hasSync {
				c.Note("shared_package_variable_written", v+" (the library imports sync: left to the race detector)")
				continue
			}
			pl, _ := json.Marshal(c14Payload{Clause: "race", Scenario: t.Scenario, Jobs: t.Jobs, Tiny: t.Tiny, Gran: t.Gran})
			c.Violate(core.Violation{Kind: "package-variable-written-concurrently", Config: r.Scenario, Case: v,
				Detail: "two jobs access package-level variable " + v + " and at least one of them writes it; the library has no synchronisation, so every overlap of the two jobs is a data race", Payload: pl, Size: 1,
				Sig: "package-variable-written-concurrently|" + v})
		}
		for _, v := range r.SharedVars {
			c.Note("package_variables_read_by_several_jobs:"+v, "read-only")
		}
	}
}

func lastJSONLine(b []byte) []byte {
	lines := strings.Split(strings.TrimSpace(string(b)), "\n")
	for i := len(lines) - 1; i >= 0; i-- {
		if strings.HasPrefix(lines[i], "{") {
			return []byte(lines[i])
		}
	}
	return nil
}

// c14Globals: package-level state must not depend on what the library processed (see cmd/sched globalsMode).
func c14Globals(c *core.Ctx, b *c14Build) {
	if b.problem != "" {
		return
	}
	cmd := exec.Command(b.sched, "globals")
	cmd.Env = append(os.Environ(), "GOMAXPROCS=1", "SCHED_GRANULARITY=0")
	stop := c.KeepAlive("package-level state dump")
	out, err := cmd.Output()
	stop()
	var r struct {
		Variables []string          `json:"variables"`
		Changed   []string          `json:"changed"`
		Detail    map[string]string `json:"detail"`
	}
	if jerr := json.Unmarshal(lastJSONLine(out), &r); jerr != nil {
		c.Note("package_level_state", fmt.Sprintf("dump unavailable: %v", err))
		return
	}
	c.Count("package_level_variables_dumped", int64(len(r.Variables)))
	c.Note("package_level_state", fmt.Sprintf("variables %v: unchanged by processing different inputs: %v", r.Variables, len(r.Changed) == 0))
	for _, v := range r.Changed {
		pl, _ := json.Marshal(c14Payload{Clause: "globals"})
		c.Violate(core.Violation{Kind: "package-level-state-depends-on-input", Case: v,
			Detail: "after all scenario jobs had run once, running them again on inputs with different spellings changed package-level variable " + v + ": " + core.Short(r.Detail[v], 500), Payload: pl, Size: 1,
			Sig: "package-level-state-depends-on-input|" + v})
	}
}

func c14Race(c *core.Ctx, b *c14Build) {
	if b.problem != "" || b.racep == "" {
		c.Note("race_pass", "unavailable (race-enabled build failed)")
		return
	}
	iters := 60
	if c.Thorough() {
		iters = 600
	}
	cmd := exec.Command(b.racep, strconv.Itoa(iters))
	cmd.Env = append(os.Environ(), "GORACE=halt_on_error=0 exitcode=66")
	stop := c.KeepAlive("race pass")
	out, err := cmd.CombinedOutput()
	stop()
	c.Count("race_pass_iterations", int64(iters))
	s := string(out)
	if strings.Contains(s, "WARNING: DATA RACE") {
		// attribute to the first xjs frame
		first := ""
		for _, ln := range strings.Split(s, "\n") {
			if strings.Contains(ln, "github.com/xjslang/xjs/") {
				first = strings.TrimSpace(ln)
				break
			}
		}
		pl, _ := json.Marshal(c14Payload{Clause: "racepass"})
		c.Violate(core.Violation{Kind: "data-race", Case: first, Detail: core.Short(s, 1500), Payload: pl, Size: 1, Sig: "data-race|" + first})
		return
	}
	if strings.Contains(s, "MISMATCH") {
		pl, _ := json.Marshal(c14Payload{Clause: "racepass"})
		c.Violate(core.Violation{Kind: "free-running-result-differs", Case: core.Short(s, 200), Detail: core.Short(s, 1500), Payload: pl, Size: 2})
		return
	}
	if err != nil {
		c.Note("race_pass", "inconclusive: "+err.Error())
		return
	}
	c.Note("race_pass", strings.TrimSpace(s))
}

func c14Run(c *core.Ctx) {
	runID := strconv.Itoa(os.Getppid())
	var b *c14Build
	c.Cur("instrumented build")
	stopKA := c.KeepAlive("instrumented build / waiting for it")
	defer func() {
		if stopKA != nil {
			stopKA()
		}
	}()
	if c.Shard == 0 {
		t0 := time.Now()
		b = c14Prepare(c, runID) // the other workers explore histories meanwhile and wait for the marker afterwards
		c.SetMax("phase_ms:instrumented_build", time.Since(t0).Milliseconds())
	}
	stopKA()
	stopKA = nil
	t0 := time.Now()
	c14Histories(c)
	c.SetMax("phase_ms:histories", time.Since(t0).Milliseconds())
	t0 = time.Now()
	c14Env(c)
	c14CompilerOptions(c)
	c14Late(c)
	c.SetMax("phase_ms:environment_sweep", time.Since(t0).Milliseconds())
	t0 = time.Now()
	if c.Shard != 0 {
		stop := c.KeepAlive("waiting for the instrumented build")
		b = c14Prepare(c, runID)
		stop()
	}
	c.SetMax("phase_ms:wait_for_instrumented_build", time.Since(t0).Milliseconds())
	t0 = time.Now()
	c14Schedules(c, b)
	c.SetMax("phase_ms:schedules", time.Since(t0).Milliseconds())
	if c.Shard == 0 {
		c14Globals(c, b)
		c14Race(c, b)
	}
}

func c14Replay(pl json.RawMessage) (string, []core.Violation) {
	var p c14Payload
	json.Unmarshal(pl, &p)
	switch p.Clause {
	case "late":
		var kind, k int
		fmt.Sscan(p.Text[0], &kind)
		fmt.Sscan(p.Text[1], &k)
		if kd, d := c14LateCheck(kind, k, p.Text[2]); kd != "" {
			return "builder extended after Build", []core.Violation{{Kind: kd, Detail: d}}
		}
		return "builder extended after Build", nil
	case "kopt":
		var hist []int
		for _, t := range p.Text {
			var x int
			fmt.Sscan(t, &x)
			hist = append(hist, x)
		}
		if k, d := c14KHistory(hist); k != "" {
			return "compiler option history", []core.Violation{{Kind: k, Detail: d}}
		}
		return "compiler option history", nil
	case "env":
		var mi int
		fmt.Sscan(p.Text[1], &mi)
		// the long-lived objects of the run are part of the environment: the sweep is re-run up to this input
		cx := core.NewCtx("C14", "quick", 0, 0, 1, time.Now().Add(10*time.Minute))
		c14EnvReset()
		c14Env(cx)
		var vs []core.Violation
		for _, v := range cx.Violations() {
			if v.Case == fmt.Sprintf("%q", core.Short(p.Text[0], 200)) {
				vs = append(vs, v)
			}
		}
		if len(vs) == 0 {
			vs = cx.Violations()
		}
		return fmt.Sprintf("environment sweep re-run (source %q, mode %s)", p.Text[0], Modes[mi%4]), vs
	case "history":
		out := "history: " + strings.Join(p.Text, "; ")
		if k, d, _ := c14Exec(p.Hist); k != "" {
			return out, []core.Violation{{Kind: k, Case: strings.Join(p.Text, "; "), Detail: d}}
		}
		return out, nil
	case "globals":
		b := c14Prepare(nil, "replay"+strconv.Itoa(os.Getpid()))
		defer os.RemoveAll(b.dir)
		if b.problem != "" {
			return "instrumented build unavailable: " + b.problem, nil
		}
		out, _ := exec.Command(b.sched, "globals").Output()
		var r struct {
			Changed []string          `json:"changed"`
			Detail  map[string]string `json:"detail"`
		}
		json.Unmarshal(lastJSONLine(out), &r)
		var vs []core.Violation
		for _, v := range r.Changed {
			vs = append(vs, core.Violation{Kind: "package-level-state-depends-on-input", Case: v, Detail: core.Short(r.Detail[v], 500)})
		}
		return "package-level state dump", vs
	case "schedule", "race":
		b := c14Prepare(nil, "replay"+strconv.Itoa(os.Getpid()))
		defer os.RemoveAll(b.dir)
		if b.problem != "" {
			return "instrumented build unavailable: " + b.problem, nil
		}
		var cs []string
		for _, x := range p.Schedule {
			cs = append(cs, strconv.Itoa(x))
		}
		cmd := exec.Command(b.sched, "replay", strconv.Itoa(p.Scenario), strconv.Itoa(p.Jobs), strings.Join(cs, ","))
		cmd.Env = append(os.Environ(), "GOMAXPROCS=1", "SCHED_GRANULARITY="+strconv.Itoa(p.Gran))
		if p.Tiny {
			cmd.Env = append(cmd.Env, "SCHED_TINY=1")
		}
		out, err := cmd.CombinedOutput()
		if err != nil {
			return string(out), []core.Violation{{Kind: "schedule-result-differs-from-solo", Case: fmt.Sprintf("scenario %d schedule %v", p.Scenario, p.Schedule), Detail: core.Short(string(out), 800)}}
		}
		return string(out), nil
	}
	b := c14Prepare(nil, "replay"+strconv.Itoa(os.Getpid()))
	defer os.RemoveAll(b.dir)
	if b.racep == "" {
		return "race-enabled build unavailable", nil
	}
	out, _ := exec.Command(b.racep, "200").CombinedOutput()
	if strings.Contains(string(out), "DATA RACE") || strings.Contains(string(out), "MISMATCH") {
		return "race pass", []core.Violation{{Kind: "data-race", Detail: core.Short(string(out), 1500)}}
	}
	return "race pass: " + strings.TrimSpace(string(out)), nil
}

func init() {
	core.Register(&core.PropSpec{
		ID: "C14", Level: "model_checking",
		Rule:     "(H) every history <= depth 4 (5 thorough, reduced alphabet) ending in an observation over 47 calls on two parser/lexer builder stacks and two compilers {NewBuilder, RegisterInfix/Postfix/Prefix with plugin token types, two order-observable statement interceptors, a re-entrant expression interceptor, WithTolerantMode, WithSmartSemicolon, Build(4 inputs)+ParseProgram at once, Build alone and ParseProgram of the pending parser later (a parser keeps the configuration it was built with), WithPrettyPrint x2, WithSourceMap, Compile(tree of A | tree of B | previous tree of A), debug.ToString}: each Build observation (errors, tree dump with positions, final context) and each Compile observation (code, mappings, names) equals the observation of the same configuration replayed on FRESH instances used alone; the tree dump is unchanged by Compile/ToString; Code with source map = Code without; debug.ToString = compact compilation. (S) schedules: the jobs of 4 scenarios (S1 distinct builders with different plugins/options/inputs, S2 one shared parser builder, S3 one shared tree compiled under different configurations + debug.ToString, S4 one shared configured compiler) run as threads of a cooperative scheduler on the overlay-instrumented library (yield points: every access to a package-level variable [granularity 0], + every store through a selector/index/pointer [1], + every function and closure entry [2]); iterative context bounding: ALL schedules with <= b preemptions are executed (quick tier, 2 jobs: b=3 at granularity 0; b=1 at granularities 1 and 2 on the full inputs; b=2 at granularity 1 on the full inputs for the shared-object scenarios S2-S4; b=2 at granularity 2 on one-expression inputs for S3 and S4, at granularity 1 for S1; 3 jobs: b=2 at granularity 0, b=1 at granularity 1 on the full inputs and at granularity 2 on one-expression inputs; thorough adds S2 at granularity 2 with b=2, 3 jobs with b=4 at granularity 0, S1 with b=2 at granularity 1, and b=3 / 3 jobs b=2 at granularity 2 for S3, S4); the exact task list and the time of each task are in the evidence file; each job's result must equal its result when run alone; a violating schedule is replayed and must reproduce before it is believed; a package-level variable written by one job and accessed by another is reported (the library has no synchronisation); package-level state invariance: after all jobs have run once, every package-level variable of the library is dumped, the jobs are run again on inputs of the same shapes with different spellings, and the dump must be unchanged (a cache keyed by input is shared mutable state even when it is synchronised). (R) complement, sampling, not the deciding step: the same jobs free-running on 16 goroutines under the race detector. states = histories + schedules executed; transitions = history steps + scheduling steps (E) environment sweep: every token sequence <= 3 (4 thorough) in 2 layouts, every family program in 3 layouts, the scale family, the identifier family, every expression chain of depth <= 2 (3) and the executable statement family, in all 4 modes, parsed through 5 environments (fresh plain builder; fresh builder with an unused language extension installed through a plugin; one plain and one extended builder per mode kept for the whole run; lexer builder shared with a sibling builder of the opposite modes that parsed the input first) and, when accepted, compiled in 4 option sets by a fresh compiler and by one compiler kept for the whole run: tree with positions, errors, code and map are identical; and the code of 4 option sets is the same with and without WithSourceMap(); (L) a builder with k = 0..17 items of one kind (statement / expression / token interceptors, infix / prefix operators) builds a parser, receives one more item that would change the result, and only then the first parser parses: it equals the parser of an identical builder that was never extended (4 probes); (K) every history of <= 3 (4) compiler option calls over 7 calls (WithPrettyPrint with option lists in different orders, WithSourceMap) with a Compile in the middle equals the compiler the option model predicts, on 3 probes; debug.ToString equals the compact code and the tree dump is unchanged after all compilations; the trees of parsers built from independent builders share no mutable memory (reflective walk over slices with capacity, maps and pointed-to structs, unexported fields included).",
		Assume:   []string{"sequential consistency; scheduling points as listed (races between two accesses inside one function without a store or call in between are left to the race pass)", "solo replay = the builder's configuration calls without its earlier Build calls"},
		QuickSec: 400, ThorSec: 3000, Run: c14Run, Replay: c14Replay,
		Evals: "observations_compared_with_solo", Nontriv: "schedules", States: "histories", Trans: "schedule_steps",
	})
}
