package props

import (
	"encoding/json"
	"fmt"
	"strings"

	"xmc/core"
	"xmc/gen"
	"xmc/ref"
)

// C01: transpilation preserves behaviour. The source text is its own reference semantics: source and
// every compiled output are run by the reference engine (goja) in fresh realms with logging proxies.

type c01Payload struct {
	Src string `json:"src"`
	Cfg Cfg    `json:"cfg"`
}

// c01Source evaluates the source once. ok=false: outside the domain (not a valid subset program for
// the reference, rejected by xjs, or no verdict because the run was interrupted).
type c01Src struct {
	obs  ref.Obs
	prog ParseOut
}

func c01Prepare(src string, needSubset bool) (*c01Src, string) {
	if needSubset {
		if _, _, ok := ref.GShape(src); !ok {
			return nil, "outside-subset"
		}
	}
	o := parseMode(src, Mode{})
	if o.Panic != "" || o.Err != nil {
		return nil, "xjs-rejects"
	}
	obs := ref.RunJS(src)
	if obs.Interrupted {
		return nil, "interrupted"
	}
	if obs.SyntaxError {
		return nil, "engine-rejects-source"
	}
	return &c01Src{obs, o}, ""
}

func c01Compare(s *c01Src, cfg Cfg) (kind, detail string) {
	co := compileCfg(s.prog.Prog, cfg)
	if co.Panic != "" {
		return "compile-panic", co.Panic
	}
	got := ref.RunJS(co.Code)
	if got.Interrupted {
		if got.Hang {
			return "output-does-not-terminate", fmt.Sprintf("output %q still runs after 30 s; the source finished with %s", co.Code, s.obs)
		}
		return "", "" // no verdict
	}
	if got.String() != s.obs.String() {
		kind = "behaviour"
		if got.SyntaxError {
			kind = "output-syntax-error"
		} else if got.Kind != s.obs.Kind {
			kind = "completion"
		}
		return kind, fmt.Sprintf("output %q\n   source observed: %s\n   output observed: %s", co.Code, s.obs, got)
	}
	// Annex B.1.1: in a script, "<!--" opens a single-line comment. The reference engine used here does not
	// implement HTML-like comments, so the hazard is checked on the token level: the output must not place
	// the tokens < ! -- next to each other without a gap (the subset cannot express that in the source
	// either: there it would already be a comment for such engines and the two runs would still agree).
	if strings.Contains(co.Code, "<!--") {
		if toks, err := ref.Tokenize(co.Code); err == nil {
			for i := 0; i+2 < len(toks); i++ {
				if toks[i].Text == "<" && toks[i+1].Text == "!" && toks[i+2].Text == "--" && toks[i].End == toks[i+1].Off && toks[i+1].End == toks[i+2].Off {
					return "html-comment-introduced", fmt.Sprintf("output %q contains the tokens < ! -- fused into \"<!--\", which script engines implementing HTML-like comments read as a comment", co.Code)
				}
			}
		}
	}
	return "", ""
}

func c01Run(c *core.Ctx) {
	processWarmup(c)
	cfgs := Cfgs(c.Thorough(), false)
	cfgs = append(cfgs, Cfg{Map: true}, Cfg{Pretty: true, Indent: -2, Semi: -1, Map: true})
	c.Note("configurations", fmt.Sprint(len(cfgs)))
	check := func(src string, needSubset bool, size int) {
		c.Cur(src)
		s, why := c01Prepare(src, needSubset)
		if s == nil {
			c.Inc("skipped:" + why)
			return
		}
		c.Inc("programs")
		if strings.Contains(s.obs.Log, ";") || strings.Contains(s.obs.Log, "print") {
			c.Inc("programs_with_observable_effects")
		}
		c.Distinct("observation", s.obs.String())
		for _, cfg := range cfgs {
			c.Inc("executions")
			k, d := c01Compare(s, cfg)
			if k != "" && c.ShrinkOK(k+cfg.String()) {
				pl, _ := json.Marshal(c01Payload{src, cfg})
				c.Violate(core.Violation{Kind: k, Config: cfg.String(), Case: fmt.Sprintf("%q", src), Detail: d, Payload: pl, Size: size})
			}
		}
	}
	// (i) token sequences (loop-free), space and LF layouts
	n := 4
	if c.Thorough() {
		n = 5
	}
	noLoop := func(idx []int) bool {
		for _, x := range idx {
			if gen.T[x] == "while" || gen.T[x] == "for" {
				return false
			}
		}
		return true
	}
	for L := 1; L <= n; L++ {
		gen.EachSeq(len(gen.T), L, func(idx []int) bool {
			if !c.Next() {
				return true
			}
			if c.Tick() {
				return false
			}
			if !c02Prefilter(idx) || !noLoop(idx) {
				return true
			}
			for si, sep := range []string{" ", "\n"} {
				if si > 0 && L < 2 {
					continue
				}
				src := gen.Join(gen.T, idx, sep)
				check(src, true, L)
				if c.Count0()%80021 == 0 {
					c.Sample(src)
				}
			}
			return true
		})
	}
	// (ii) print(E) for every expression chain
	depth := 2
	if c.Thorough() {
		depth = 3
	}
	for d := 0; d <= depth; d++ {
		hs := gen.Holes(c.Thorough() || d < 2)
		gen.Chains(hs, gen.Leaves(), d, true, func(e *gen.Node, name string) {
			if !c.Next() || c.Tick() {
				return
			}
			prog := []*gen.Node{gen.Ex(gen.Ca(gen.I("print"), e)), gen.Ex(gen.Ca(gen.I("print"), gen.I("a"), gen.I("b")))}
			toks := gen.UnparseProgram(prog, false)
			check(gen.RenderDefault(toks), true, len(toks))
			check(gen.RenderCompact(toks), true, len(toks))
		})
	}
	// (ii-b) operator adjacency: every binary operator followed by every pair of prefix operators, and every
	// postfix operator followed by every binary operator and prefix operator (token fusion hazards)
	{
		var exprs []*gen.Node
		for _, op := range gen.BinOps {
			for _, p1 := range gen.PreOps {
				for _, p2 := range gen.PreOps {
					exprs = append(exprs, gen.Bi(op, gen.I("a"), gen.U(p1, gen.U(p2, gen.I("b")))))
				}
				for _, po := range gen.PostOps {
					exprs = append(exprs, gen.Bi(op, gen.Po(po, gen.I("a")), gen.U(p1, gen.I("b"))))
				}
			}
		}
		for _, e := range exprs {
			if !c.Next() || c.Tick() {
				continue
			}
			c.Inc("operator_adjacency_programs")
			prog := []*gen.Node{gen.Ex(gen.Ca(gen.I("print"), e)), gen.Ex(gen.Ca(gen.I("print"), gen.I("a"), gen.I("b")))}
			toks := gen.UnparseProgram(prog, false)
			check(gen.RenderDefault(toks), false, len(toks))
		}
	}
	// (ii-c) texts the tree generator cannot spell (it parenthesises number objects): member access directly
	// on number literals of every shape
	for _, n := range []string{"0", "1", "7", "10", "255", "0x1f", "0b11", "0o17", "1e3", "1.5", "0.5", "00"} {
		for _, t := range []string{"print(%s .toFixed(1))", "print(- %s .toFixed(2), a)", "print(a == %s .valueOf())", "print(%s\n.toString())", "let v = %s .constructor; print(v == Number)", "print(%s .toFixed(1) + %s .toFixed(1))"} {
			if !c.Next() || c.Tick() {
				continue
			}
			c.Inc("number_member_programs")
			check(strings.ReplaceAll(t, "%s", n), false, 6)
		}
	}
	// (ii-d') every escape / text fragment of the literal alphabet inside executable programs, both quote styles
	for fi, f := range c07Fragments(1000) {
		if !c.Mine(int64(fi)) || c.Tick() {
			continue
		}
		for _, q := range []string{"'", "\""} {
			if strings.Contains(f, q) && !strings.HasPrefix(f, "\\") {
				continue
			}
			lit := q + "a" + f + "b" + q
			c.Inc("escape_programs")
			check("let s = "+lit+";\nprint(s.length, s, "+q+f+q+" + s);\nif (s == "+lit+") { print(1) } else { print(2) }", false, 30)
		}
	}
	// (ii-d'') all ordered pairs of the first 30 fragments (quotes raw and in every escaped spelling, backslash,
	// line escapes, code points) as one literal, in both quote styles, ten literals per program
	{
		fr := c07Fragments(30)
		var lits []string
		flush := func() {
			if len(lits) == 0 {
				return
			}
			var sb strings.Builder
			for i, l := range lits {
				fmt.Fprintf(&sb, "let s%d = %s;\nprint(s%d.length, s%d);\n", i, l, i, i)
			}
			lits = nil
			c.Inc("literal_pair_programs")
			check(sb.String(), false, 40)
		}
		n := 0
		for _, x := range fr {
			for _, y := range fr {
				for _, q := range []string{"'", "\""} {
					if x == q || y == q || strings.HasPrefix(x, "\\\n") || strings.HasPrefix(y, "\\\n") {
						continue
					}
					n++
					if !c.Mine(int64(n / 10)) {
						continue
					}
					if c.Tick() {
						continue
					}
					lits = append(lits, q+x+y+q)
					if len(lits) == 10 {
						flush()
					}
				}
			}
		}
		flush()
	}
	// (ii-d3) literal interplay (see c07InterplayFirst): same line, different lines of a function body, and
	// with a comment line that ends in a backslash in between
	{
		n := 0
		for _, f := range c07InterplayFirst {
			for _, sec := range c07InterplaySecond {
				for _, src := range []string{
					"print(" + f + " + " + sec + ");",
					"let u = " + f + ";\nlet v = " + sec + ";\nprint(u, v);",
					"function g() {\n  let u = " + f + ";\n  // note \\\n  return " + sec + ";\n}\nprint(g());",
					"print(" + sec + ", " + f + ", " + sec + ");",
				} {
					n++
					if !c.Mine(int64(n)) || c.Tick() {
						continue
					}
					c.Inc("literal_interplay_programs")
					check(src, false, 50)
				}
			}
		}
	}
	// (ii-e) identifier spellings in every position a name can take
	for ii, name := range gen.Identifiers() {
		if !c.Mine(int64(ii)) || c.Tick() {
			continue
		}
		for _, src := range gen.IdentPrograms(name) {
			c.Inc("identifier_programs")
			check(src, true, 40)
		}
	}
	// (ii-d) scale family: one shape per size around typical thresholds
	for i, sp := range gen.Scale(c.Thorough()) {
		if !c.Mine(int64(i)) || c.Tick() {
			continue
		}
		c.Inc("scale_programs")
		check(sp.Src, false, 1000+len(sp.Src))
	}
	// (iii) executable statement family x layouts
	level, k := 1, 1
	if c.Thorough() {
		k = 2
	}
	for pi, prog := range gen.XStatements(level) {
		if c.Mine(int64(pi)) {
			// redundant parentheses around every sub-expression and every statement-level slot
			rt := gen.UnparseProgram(prog, true)
			check(gen.RenderDefault(rt), true, len(rt))
			check(gen.RenderCompact(rt), true, len(rt))
			c.Inc("redundant_paren_texts")
		}
		toks := gen.UnparseProgram(prog, false)
		kk := k
		if len(toks) > 45 {
			kk = 1
		}
		li := 0
		gen.Layouts(toks, kk, []string{"\n", "", " // c\n"}, func(src string, devs []gen.Dev) {
			li++
			if !c.Mine(int64(pi*7919+li)) || c.Tick() {
				return
			}
			c.Inc("statement_family_texts")
			check(src, true, len(toks))
			if li%97 == 0 {
				c.Sample(src)
			}
		})
	}
}

func c01Replay(pl json.RawMessage) (string, []core.Violation) {
	var p c01Payload
	json.Unmarshal(pl, &p)
	s, why := c01Prepare(p.Src, false)
	if s == nil {
		return "source outside domain: " + why, nil
	}
	k, d := c01Compare(s, p.Cfg)
	out := fmt.Sprintf("source %q config %s", p.Src, p.Cfg)
	if k != "" {
		return out, []core.Violation{{Kind: k, Config: p.Cfg.String(), Case: fmt.Sprintf("%q", p.Src), Detail: d}}
	}
	return out, nil
}

func init() {
	core.Register(&core.PropSpec{
		ID: "C01", Level: "exploration",
		Rule:     "programs: (i) every loop-free token sequence <= n (4 quick, 5 thorough) that the reference parser accepts as subset-only, space and LF layouts; (ii) print(E) for every expression chain of depth <= 2 (3 thorough) in default and minimal-gap layouts; (iii) an executable statement family (if/else, while, for, function declarations/expressions, closures, nested blocks, every ASI-hazard adjacency) in every layout with <= k deviations (line break, no gap, comment; semicolons dropped); each accepted program and each compiled output (compact, pretty variants, with source map) is executed by goja in a fresh realm whose free identifiers are logging proxies; observation = call/property/conversion log + completion kind + completion value. non-trivial = program whose run has observable effects (non-empty log) Added families: every literal fragment of the C07 alphabet inside executable programs; literal-content statements (sign-leading strings after operators, multi-line templates after literals with quotes/comment markers); every binary operator followed by every pair of prefix operators / every postfix-binary-prefix adjacency; member access on 12 number-literal shapes as raw text; the scale family (one regular shape per size 9..257, 1025+ thorough). Extra oracle: the output must not fuse the tokens < ! -- into \"<!--\" (HTML-like comment opener for script engines); an output that still runs after 30 s while the source terminated is a violation.",
		Assume:   []string{"goja is the reference engine; both sides run on it, so engine quirks cancel", "runs interrupted after 2 s give no verdict (counted)"},
		QuickSec: 300, ThorSec: 2400, Run: c01Run, Replay: c01Replay,
		Evals: "executions", Nontriv: "programs_with_observable_effects",
	})
}
