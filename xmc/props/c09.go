package props

import (
	"encoding/json"
	"fmt"
	"strings"

	"github.com/xjslang/xjs/sourcemap"

	"xmc/core"
	"xmc/ref"
)

// C09: every operation history over the source-map builder (bounded depth, small argument domains),
// real builder and reference model stepped in lock-step, `mappings` decoded by an independent decoder.

type smOp struct {
	name string
	impl func(m *sourcemap.SourceMapper)
	mod  func(m *ref.MapModel)
}

func smAlphabet() []smOp {
	var ops []smOp
	pos := [][2]int{{0, 0}, {0, 7}, {3, 1}, {2, 0}, {1000000, 70000}}
	for _, p := range pos {
		p := p
		ops = append(ops, smOp{fmt.Sprintf("Add(%d,%d)", p[0], p[1]),
			func(m *sourcemap.SourceMapper) { m.AddMapping(p[0], p[1]) },
			func(m *ref.MapModel) { m.Add(p[0], p[1]) }})
	}
	for _, n := range []string{"a", "b", ""} {
		for pi, p := range pos {
			if n == "" && pi != 0 && pi != 2 {
				continue // the empty string is a name like any other; two positions keep the alphabet small
			}
			p, n := p, n
			ops = append(ops, smOp{fmt.Sprintf("AddNamed(%d,%d,%s)", p[0], p[1], n),
				func(m *sourcemap.SourceMapper) { m.AddNamedMapping(p[0], p[1], n) },
				func(m *ref.MapModel) { m.AddNamed(p[0], p[1], n) }})
		}
	}
	for _, k := range []int{1, 40} {
		k := k
		ops = append(ops, smOp{fmt.Sprintf("AdvCol(%d)", k),
			func(m *sourcemap.SourceMapper) { m.AdvanceColumn(k) },
			func(m *ref.MapModel) { m.AdvCol(k) }})
	}
	for _, s := range []string{"x", "\n", "\r\n", "\r", "ab\ncd", "\r\r\n", "a\rb"} {
		s := s
		ops = append(ops, smOp{fmt.Sprintf("AdvStr(%q)", s),
			func(m *sourcemap.SourceMapper) { m.AdvanceString(s) },
			func(m *ref.MapModel) { m.AdvStr(s) }})
	}
	ops = append(ops, smOp{"AdvLine()",
		func(m *sourcemap.SourceMapper) { m.AdvanceLine() },
		func(m *ref.MapModel) { m.AdvLine() }})
	return ops
}

var smOps = smAlphabet()

func smHistString(h []int) string {
	var b []string
	for _, o := range h {
		b = append(b, smOps[o].name)
	}
	return strings.Join(b, "; ")
}

// smCompare checks the produced map against the model; returns failure kind + detail.
func smCompare(sm *sourcemap.SourceMap, mod *ref.MapModel) (string, string) {
	if sm == nil {
		return "nil-map", "SourceMap() returned nil"
	}
	if sm.Version != 3 {
		return "version", fmt.Sprintf("version=%d", sm.Version)
	}
	segs, err := ref.DecodeMappings(sm.Mappings)
	if err != nil {
		return "undecodable", fmt.Sprintf("mappings=%q: %v", sm.Mappings, err)
	}
	if len(segs) != len(mod.Segs) {
		return "segment-count", fmt.Sprintf("mappings=%q decoded %d segments [%s], recorded %d [%s]", sm.Mappings, len(segs), ref.SegsString(segs), len(mod.Segs), ref.SegsString(mod.Segs))
	}
	for i := range segs {
		g, w := segs[i], mod.Segs[i]
		if g.Src != 0 {
			return "source-index", fmt.Sprintf("segment %d has source index %d", i, g.Src)
		}
		g.Src = 0
		if g != w {
			kind := "segment"
			switch {
			case g.GenLine != w.GenLine:
				kind = "generated-line"
			case g.GenCol != w.GenCol:
				kind = "generated-column"
			case g.SrcLine != w.SrcLine:
				kind = "source-line"
			case g.SrcCol != w.SrcCol:
				kind = "source-column"
			case g.HasName != w.HasName || g.Name != w.Name:
				kind = "name-index"
			}
			return kind, fmt.Sprintf("mappings=%q segment %d decodes to %s, recorded %s", sm.Mappings, i, g, w)
		}
	}
	if strings.Join(sm.Names, "\x00") != strings.Join(mod.Names, "\x00") || len(sm.Names) != len(mod.Names) {
		return "names", fmt.Sprintf("names=%q want %q", sm.Names, mod.Names)
	}
	return "", ""
}

func smRun(h []int) (kind, detail string, mod *ref.MapModel) {
	defer func() {
		if r := recover(); r != nil {
			kind, detail = "panic", fmt.Sprint(r)
		}
	}()
	m := sourcemap.New()
	mod = ref.NewMapModel()
	for _, o := range h {
		smOps[o].impl(m)
		smOps[o].mod(mod)
	}
	kind, detail = smCompare(m.SourceMap(), mod)
	if kind != "" || len(h) < 2 {
		return
	}
	// the same history with the map requested after every step: asking for the map is an observation, it
	// must not change what later steps produce
	m2 := sourcemap.New()
	mod2 := ref.NewMapModel()
	type snap struct {
		sm       *sourcemap.SourceMap
		mappings string
		names    string
		step     int
	}
	var snaps []snap
	for i, o := range h {
		smOps[o].impl(m2)
		smOps[o].mod(mod2)
		if i < len(h)-1 {
			if sm := m2.SourceMap(); sm != nil {
				snaps = append(snaps, snap{sm, sm.Mappings, strings.Join(sm.Names, "\x00"), i})
			}
		}
	}
	if k, d := smCompare(m2.SourceMap(), mod2); k != "" {
		return "observed-" + k, "with SourceMap() requested after every step: " + d, mod
	}
	// a map that was handed out stays what it was when the builder goes on
	for _, s := range snaps {
		if s.sm.Mappings != s.mappings || strings.Join(s.sm.Names, "\x00") != s.names {
			return "earlier-result-changed", fmt.Sprintf("the map returned after step %d had mappings %q names %q; after the later steps the same object has mappings %q names %q", s.step, s.mappings, strings.Split(s.names, "\x00"), s.sm.Mappings, s.sm.Names), mod
		}
	}
	return
}

// smGap: a segment, then `gap` line breaks (how=0: AdvanceLine calls; 1: one AdvanceString of LFs; 2: CRLFs with
// text in between), then three more segments on two lines, a long column advance and a named segment.
func smGap(gap, how int) (kind, detail string) {
	defer func() {
		if r := recover(); r != nil {
			kind, detail = "panic", fmt.Sprint(r)
		}
	}()
	m := sourcemap.New()
	mod := ref.NewMapModel()
	m.AddMapping(0, 0)
	mod.Add(0, 0)
	switch how {
	case 0:
		for i := 0; i < gap; i++ {
			m.AdvanceLine()
			mod.AdvLine()
		}
	case 1:
		s := strings.Repeat("\n", gap)
		m.AdvanceString(s)
		mod.AdvStr(s)
	default:
		s := strings.Repeat("ab\r\n", gap)
		m.AdvanceString(s)
		mod.AdvStr(s)
	}
	m.AddMapping(1, 2)
	mod.Add(1, 2)
	m.AdvanceColumn(gap)
	mod.AdvCol(gap)
	m.AddNamedMapping(1, 9, "n")
	mod.AddNamed(1, 9, "n")
	m.AdvanceLine()
	mod.AdvLine()
	m.AddMapping(gap, gap)
	mod.Add(gap, gap)
	m.AddNamedMapping(2, 0, "n")
	mod.AddNamed(2, 0, "n")
	return smCompare(m.SourceMap(), mod)
}

// smLong runs long regular histories (buffer / batch boundaries): n segments, a line break every `per`
// segments (0: never), every `named`-th segment named (0: none), columns advancing by adv.
func smLong(n, per, named, adv int) (kind, detail string) {
	defer func() {
		if r := recover(); r != nil {
			kind, detail = "panic", fmt.Sprint(r)
		}
	}()
	m := sourcemap.New()
	mod := ref.NewMapModel()
	for i := 0; i < n; i++ {
		if named > 0 && i%named == 0 {
			nm := fmt.Sprintf("n%d", i%7)
			m.AddNamedMapping(i/5, (i*3)%11, nm)
			mod.AddNamed(i/5, (i*3)%11, nm)
		} else {
			m.AddMapping(i/5, (i*3)%11)
			mod.Add(i/5, (i*3)%11)
		}
		m.AdvanceColumn(adv)
		mod.AdvCol(adv)
		if per > 0 && i%per == per-1 {
			m.AdvanceLine()
			mod.AdvLine()
		}
	}
	return smCompare(m.SourceMap(), mod)
}

type smPayload struct {
	Hist  []int    `json:"history,omitempty"`
	Names []string `json:"op_names,omitempty"`
	VLQ   *smVLQ   `json:"vlq,omitempty"`
	Long  []int    `json:"long,omitempty"` // n, per, named, adv
}
type smVLQ struct {
	Field string `json:"field"`
	A, B  int    `json:"a_b"`
}

func smShrink(h []int) []int {
	fails := func(x []int) bool { k, _, _ := smRun(x); return k != "" }
	return core.ShrinkSeq(h, func(o int) []int {
		var s []int
		for i := 0; i < o; i++ {
			s = append(s, i)
		}
		return s
	}, fails)
}

func smViolation(h []int) core.Violation {
	h = smShrink(append([]int{}, h...))
	k, d, _ := smRun(h)
	var names []string
	for _, o := range h {
		names = append(names, smOps[o].name)
	}
	pl, _ := json.Marshal(smPayload{Hist: h, Names: names})
	return core.Violation{Kind: k, Case: smHistString(h), Detail: d, Payload: pl, Size: len(h)}
}

// vlq probes: field in {srcline, srccol, gencol, name}; a then b absolute values.
func smRunVLQ(field string, a, b int) (kind, detail string) {
	defer func() {
		if r := recover(); r != nil {
			kind, detail = "panic", fmt.Sprint(r)
		}
	}()
	m := sourcemap.New()
	mod := ref.NewMapModel()
	switch field {
	case "srcline":
		m.AddMapping(a, 0)
		mod.Add(a, 0)
		m.AddMapping(b, 0)
		mod.Add(b, 0)
	case "srccol":
		m.AddMapping(0, a)
		mod.Add(0, a)
		m.AddMapping(0, b)
		mod.Add(0, b)
	case "gencol":
		m.AdvanceColumn(a)
		mod.AdvCol(a)
		m.AddMapping(0, 0)
		mod.Add(0, 0)
		m.AdvanceColumn(b)
		mod.AdvCol(b)
		m.AddMapping(1, 1)
		mod.Add(1, 1)
	case "name":
		// intern 70 names, then named(a), unnamed, named(b): name delta must skip the unnamed segment
		for i := 0; i < 70; i++ {
			n := fmt.Sprintf("n%d", i)
			m.AddNamedMapping(0, i, n)
			mod.AddNamed(0, i, n)
		}
		m.AdvanceColumn(1)
		mod.AdvCol(1)
		m.AddNamedMapping(1, 0, fmt.Sprintf("n%d", a))
		mod.AddNamed(1, 0, fmt.Sprintf("n%d", a))
		m.AddMapping(1, 1)
		mod.Add(1, 1)
		m.AdvanceLine()
		mod.AdvLine()
		m.AddNamedMapping(1, 2, fmt.Sprintf("n%d", b))
		mod.AddNamed(1, 2, fmt.Sprintf("n%d", b))
	}
	return smCompare(m.SourceMap(), mod)
}

func c09Run(c *core.Ctx) {
	depth := 5
	if c.Thorough() {
		depth = 6
	}
	n := len(smOps)
	// (1) stateless: every history of length 1..depth
	h := make([]int, 0, depth)
	var rec func(d int)
	rec = func(d int) {
		if len(h) > 0 {
			// ownership is decided on complete histories
			if c.Next() {
				if c.Saturated() || c.Tick() {
					return
				}
				kind, _, mod := smRun(h)
				c.Inc("histories")
				c.Count("ops_executed", int64(len(h)))
				if mod != nil {
					if len(mod.Segs) >= 2 && (mod.Line > 0 || len(mod.Names) > 0) {
						c.Inc("nontrivial")
					}
					c.SetMax("max_segments", int64(len(mod.Segs)))
				}
				if c.Count0()%200003 == 1 {
					c.Sample(smHistString(h))
				}
				if kind != "" {
					c.Violate(smViolation(h))
				}
			}
		}
		if d == depth {
			return
		}
		for o := 0; o < n; o++ {
			h = append(h, o)
			rec(d + 1)
			h = h[:len(h)-1]
		}
	}
	rec(0)
	c.Note("stateless_depth", fmt.Sprint(depth))

	// (2) VLQ codec through the public API: every delta in [-2^20, 2^20] for the three numeric fields
	lim := 1 << 20
	probe := func(field string, a, b int) {
		if !c.Next() {
			return
		}
		c.Inc("vlq_probes")
		if k, d := smRunVLQ(field, a, b); k != "" {
			pl, _ := json.Marshal(smPayload{VLQ: &smVLQ{field, a, b}})
			c.Violate(core.Violation{Kind: "vlq-" + k, Config: field, Case: fmt.Sprintf("delta %d", b-a), Detail: d, Payload: pl, Size: 2})
		}
	}
	for v := 0; v <= lim && !c.Saturated(); v++ {
		probe("srcline", 0, v)
		probe("srcline", v, 0)
		probe("srccol", 0, v)
		probe("srccol", v, 0)
		probe("gencol", 0, v)
	}
	for k := 0; k <= 31; k++ {
		for _, v := range []int{1<<k - 1, 1 << k, 1<<k + 1} {
			for _, f := range []string{"srcline", "srccol"} {
				probe(f, 0, v)
				probe(f, v, 0)
			}
			probe("gencol", 3, v)
		}
	}
	for a := 0; a < 70; a++ {
		for b := 0; b < 70; b++ {
			probe("name", a, b)
		}
	}

	// (2b) long regular histories around typical buffer sizes
	for _, n := range []int{15, 16, 17, 63, 64, 65, 255, 256, 257, 511, 512, 513, 1023, 1024, 1025, 2047, 2048, 2049, 4095, 4096, 4097, 8193} {
		for _, per := range []int{0, 1, 7, 100} {
			for _, named := range []int{0, 1, 3} {
				for _, adv := range []int{1, 17} {
					if !c.Next() {
						continue
					}
					c.Inc("long_histories")
					c.Count("ops_executed", int64(2*n))
					if k, d := smLong(n, per, named, adv); k != "" {
						pl, _ := json.Marshal(smPayload{Long: []int{n, per, named, adv}})
						c.Violate(core.Violation{Kind: "long-" + k, Case: fmt.Sprintf("%d segments, line break every %d, every %d-th named, column advance %d", n, per, named, adv), Detail: core.Short(d, 600), Payload: pl, Size: n})
					}
				}
			}
		}
	}

	// (2c) long runs of generated lines without a segment, and long single advances
	for _, gap := range []int{2, 15, 16, 17, 63, 64, 65, 100, 127, 128, 129, 255, 256, 257, 1023, 1024, 1025, 5000} {
		for _, how := range []int{0, 1, 2} {
			if !c.Next() {
				continue
			}
			c.Inc("long_histories")
			k, d := smGap(gap, how)
			if k != "" {
				pl, _ := json.Marshal(smPayload{Long: []int{-gap, how, 0, 0}})
				c.Violate(core.Violation{Kind: "gap-" + k, Case: fmt.Sprintf("%d generated lines without a segment (variant %d)", gap, how), Detail: core.Short(d, 600), Payload: pl, Size: gap})
			}
		}
	}

	// (2d) two builders alive at the same time: every interleaving history <= 7 over {record, record named,
	// advance, line, request the map} on builder 1 / builder 2 (builder 2 is created at its first use); each
	// builder's map must decode to its own recorded mappings
	{
		type op struct {
			who, what int
		}
		var all []op
		for who := 0; who < 2; who++ {
			for what := 0; what < 5; what++ {
				all = append(all, op{who, what})
			}
		}
		depth := 6
		if c.Thorough() {
			depth = 7
		}
		h := make([]op, 0, depth)
		var rec func(d int)
		rec = func(d int) {
			if d >= 3 && c.Next() && !c.Tick() {
				c.Inc("two_builder_histories")
				ms := [2]*sourcemap.SourceMapper{}
				mods := [2]*ref.MapModel{}
				for i, o := range h {
					if ms[o.who] == nil {
						ms[o.who] = sourcemap.New()
						mods[o.who] = ref.NewMapModel()
					}
					m, mod := ms[o.who], mods[o.who]
					switch o.what {
					case 0:
						m.AddMapping(i, 2*i+o.who)
						mod.Add(i, 2*i+o.who)
					case 1:
						nm := []string{"p", "q"}[(i+o.who)%2]
						m.AddNamedMapping(1, i, nm)
						mod.AddNamed(1, i, nm)
					case 2:
						m.AdvanceColumn(3 + o.who)
						mod.AdvCol(3 + o.who)
					case 3:
						m.AdvanceLine()
						mod.AdvLine()
					case 4:
						if k, dd := smCompare(m.SourceMap(), mod); k != "" {
							c.Violate(core.Violation{Kind: "two-builders-" + k, Case: fmt.Sprint(h[:i+1]), Detail: core.Short(dd, 500), Size: i + 1, Sig: "two-builders-" + k})
							return
						}
					}
				}
				for w := 0; w < 2; w++ {
					if ms[w] != nil {
						if k, dd := smCompare(ms[w].SourceMap(), mods[w]); k != "" {
							c.Violate(core.Violation{Kind: "two-builders-" + k, Case: fmt.Sprint(h), Detail: core.Short(dd, 500), Size: len(h), Sig: "two-builders-" + k})
							return
						}
					}
				}
			}
			if d == depth {
				return
			}
			for _, o := range all {
				h = append(h, o)
				rec(d + 1)
				h = h[:len(h)-1]
			}
		}
		rec(0)
	}

	// (3) explicit-state BFS with abstract-state dedup beyond the stateless depth (shard 0 only, so that
	// the state count is a count of distinct abstract states)
	if c.Shard == 0 {
		c09BFS(c)
	}
}

func smAbsKey(m *ref.MapModel) string {
	last, lastNamed := "-", -1
	if k := len(m.Segs); k > 0 {
		last = m.Segs[k-1].String()
	}
	for i := len(m.Segs) - 1; i >= 0; i-- {
		if m.Segs[i].HasName {
			lastNamed = m.Segs[i].Name
			break
		}
	}
	return fmt.Sprintf("%d:%d|%s|%s|%d", m.Line, m.Col, strings.Join(m.Names, ","), last, lastNamed)
}

func c09BFS(c *core.Ctx) {
	maxDepth := 7
	capStates := 150000
	if c.Thorough() {
		maxDepth = 9
		capStates = 1500000
	}
	seen := map[string]bool{"0:0||-|-1": true}
	frontier := [][]int{{}}
	states, trans := int64(1), int64(0)
	depthDone := 0
	for d := 1; d <= maxDepth; d++ {
		var next [][]int
		for _, h := range frontier {
			if c.Expired() {
				c.Note("bfs_depth_completed", fmt.Sprint(depthDone))
				c.Count("bfs_states", states)
				c.Count("bfs_transitions", trans)
				return
			}
			for o := range smOps {
				if strings.HasSuffix(smOps[o].name, ",)") {
					continue // the empty name is covered by the stateless histories; the BFS keeps its 25-call alphabet
				}
				nh := append(append(make([]int, 0, len(h)+1), h...), o)
				kind, _, mod := smRun(nh)
				trans++
				if kind != "" {
					c.Violate(smViolation(nh))
					continue
				}
				k := smAbsKey(mod)
				if !seen[k] {
					seen[k] = true
					states++
					next = append(next, nh)
				}
			}
		}
		depthDone = d
		frontier = next
		if int(states) > capStates {
			c.Cap(fmt.Sprintf("bfs state cap %d reached at depth %d", capStates, d))
			break
		}
	}
	c.Note("bfs_depth_completed", fmt.Sprint(depthDone))
	c.Count("bfs_states", states)
	c.Count("bfs_transitions", trans)
	c.Count("histories", trans)
}

func c09Replay(pl json.RawMessage) (string, []core.Violation) {
	var p smPayload
	json.Unmarshal(pl, &p)
	if p.VLQ != nil {
		k, d := smRunVLQ(p.VLQ.Field, p.VLQ.A, p.VLQ.B)
		if k != "" {
			return "vlq probe", []core.Violation{{Kind: "vlq-" + k, Config: p.VLQ.Field, Case: fmt.Sprintf("delta %d", p.VLQ.B-p.VLQ.A), Detail: d}}
		}
		return "vlq probe ok", nil
	}
	if len(p.Long) == 4 && p.Long[0] < 0 {
		if k, d := smGap(-p.Long[0], p.Long[1]); k != "" {
			return "gap history", []core.Violation{{Kind: "gap-" + k, Case: fmt.Sprint(p.Long), Detail: core.Short(d, 600)}}
		}
		return "gap history ok", nil
	}
	if len(p.Long) == 4 {
		if k, d := smLong(p.Long[0], p.Long[1], p.Long[2], p.Long[3]); k != "" {
			return "long history", []core.Violation{{Kind: "long-" + k, Case: fmt.Sprint(p.Long), Detail: core.Short(d, 600)}}
		}
		return "long history ok", nil
	}
	k, d, _ := smRun(p.Hist)
	out := "history: " + smHistString(p.Hist)
	if k != "" {
		return out, []core.Violation{{Kind: k, Case: smHistString(p.Hist), Detail: d}}
	}
	return out, nil
}

func init() {
	core.Register(&core.PropSpec{
		ID: "C09", Level: "model_checking",
		Rule:     "all operation histories up to the stated depth over 27 builder calls (5 source positions incl. decreasing and large ones, 3 names incl. the empty string, column advances, 7 strings mixing LF/CRLF/CR, line advance), each replayed on a fresh real SourceMapper in lock-step with a list model; mappings decoded by an independent Base64-VLQ decoder; plus every delta in [-2^20,2^20] and +-2^k(+-1), k<=31 per numeric field, all 70x70 name-index deltas across an unnamed segment; every history also with SourceMap() requested after every step (an observation must not change later output); long regular histories of 15..8193 segments around power-of-two sizes x line-break period x naming period x column advance; BFS with abstract-state dedup beyond the stateless depth (over the 25 calls without the empty name). non-trivial = history with >=2 segments and a line break or a name",
		Assume:   []string{"columns are counted per byte on ASCII input (non-ASCII column units are C08's subject)", "abstract-state dedup in the BFS part assumes the encoder's future depends only on (position, names, last segment, last name index)"},
		QuickSec: 300, ThorSec: 1800, Run: c09Run, Replay: c09Replay,
		Evals: "histories", Nontriv: "nontrivial", States: "bfs_states", Trans: "bfs_transitions",
	})
}
