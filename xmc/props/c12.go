package props

import (
	"encoding/json"
	"fmt"
	"github.com/xjslang/xjs/lexer"
	"github.com/xjslang/xjs/parser"
	"os"
	"strings"

	"xmc/core"
	"xmc/gen"
	"xmc/ref"
)

// C12: strict mode never silently accepts malformed programs (fault enumeration over valid programs).

type c12Payload struct {
	Src    string `json:"corrupted"`
	Orig   string `json:"original"`
	Fault  string `json:"fault"`
	Intact int    `json:"last_intact_token_offset"`
}

// c12Check: corrupted text src; intact = byte offset of the start of the last intact token before the
// corruption point (0 if none). domain=false if the reference does not reject the text.
func c12Check(src string, intact int) (domain bool, kind, detail string) {
	if !ref.GRejects(src) {
		return false, "", ""
	}
	if rt, err := ref.Tokenize(src); err == nil {
		for i, t := range rt {
			// D7: a template literal right after an expression end is a TAGGED template in JavaScript
			// (no automatic semicolon); tagged templates are not part of the subset, so texts whose
			// only defect depends on that reading are outside the fault model
			if t.Kind == ref.TTemplate && i > 0 && rtokEndsExpr(rt[i-1]) {
				return false, "", ""
			}
		}
	}
	o := parseMode(src, Mode{})
	if o.Panic != "" {
		return true, "panic", o.Panic
	}
	if o.Err == nil || len(o.Errs) == 0 {
		return true, "accepted", fmt.Sprintf("malformed text %q accepted without error (tree %s)", src, ref.XStmts(o.Prog.Statements))
	}
	// strictness is a property of the parser builder: a sibling builder that shares the lexer builder and is
	// tolerant / smart, or the same builder having been tolerant before, must not make this one lenient
	{
		// (i) a tolerant + smart sibling on the same lexer builder, configured before and used before
		lb := lexer.NewBuilder()
		sib := parser.NewBuilder(lb).WithTolerantMode(true).WithSmartSemicolon(true)
		sib.Build("a").ParseProgram()
		pbS := parser.NewBuilder(lb)
		if o2 := parseWith(pbS, src); o2.Panic == "" && (o2.Err == nil || len(o2.Errs) == 0) {
			return true, "accepted-with-tolerant-sibling", fmt.Sprintf("malformed text %q accepted without error by a strict parser builder whose lexer builder is shared with a tolerant parser builder", src)
		}
		// (ii) the same builder was tolerant before and is strict again
		pbT := parser.NewBuilder(lexer.NewBuilder())
		pbT.WithTolerantMode(true).Build("{ a").ParseProgram()
		pbT.WithTolerantMode(false)
		if o3 := parseWith(pbT, src); o3.Panic == "" && (o3.Err == nil || len(o3.Errs) == 0) {
			return true, "accepted-after-tolerant-phase", fmt.Sprintf("malformed text %q accepted without error by a builder that was tolerant before and is strict again", src)
		}
	}
	e := o.Errs[0]
	if off := posOff(src, e.Range.Start); off >= 0 && off < intact {
		return true, "error-too-early", fmt.Sprintf("first error %q at offset %d, before the last intact token at offset %d", e.Message, off, intact)
	}
	return true, "", ""
}

// c12Faults applies every fault of the model to one valid program given as R-tok tokens of text src.
func c12Faults(c *core.Ctx, src string, report func(fault, corrupted string, intact int)) {
	rt, err := ref.Tokenize(src)
	if err != nil {
		return
	}
	toks := rt[:len(rt)-1]
	startOf := func(i int) int {
		if i < 0 {
			return 0
		}
		return toks[i].Off
	}
	// (1) delete each token (keeping the layout around it)
	for i, t := range toks {
		cor := src[:t.Off] + src[t.End:]
		kind := "delete"
		if t.Text == ";" {
			kind = "delete-separator"
		}
		report(kind, cor, startOf(i-1))
	}
	// (2) fuse: remove a statement separator — a ';' or a line break between two tokens — and put one space
	for i := 1; i < len(toks); i++ {
		if toks[i].NL {
			for _, glue := range []string{" ", " /* c */ ", "/**/", " /*\t*/"} {
				cor := src[:toks[i-1].End] + glue + src[toks[i].Off:]
				report("join-lines", cor, startOf(i-1))
			}
		}
	}
	// (3) truncate at every byte offset inside a string/template token, and after every token that
	// leaves a bracket pair or block open
	depth := 0
	for i, t := range toks {
		if t.Kind == ref.TString || t.Kind == ref.TTemplate {
			for o := t.Off + 1; o < t.End; o++ {
				report("truncate-in-literal", src[:o], startOf(i-1))
			}
		}
		switch t.Text {
		case "(", "[", "{":
			depth++
		case ")", "]", "}":
			depth--
		}
		if depth > 0 && i+1 < len(toks) {
			report("truncate-in-bracket", src[:t.End], startOf(i))
		}
	}
}

func c12Run(c *core.Ctx) {
	processWarmup(c)
	nValid := 0
	seen := func(fault, orig string) func(string, string, int) {
		return nil
	}
	_ = seen
	handle := func(orig string, size int) {
		c12Faults(c, orig, func(fault, cor string, intact int) {
			c.Inc("corrupted_texts")
			c.Cur(cor)
			dom, k, d := c12Check(cor, intact)
			if !dom {
				c.Inc("corrupted_still_valid_js")
				return
			}
			c.Inc("faults_in_domain")
			c.Inc("fault:" + fault)
			if k != "" && os.Getenv("XMC_DEBUG") != "" && len(cor) < 14 {
				c.Inc("dbg:" + k + ":" + fault + ":" + cor)
			}
			if k != "" && c.ShrinkOK(k+fault) {
				pl, _ := json.Marshal(c12Payload{cor, orig, fault, intact})
				c.Violate(core.Violation{Kind: k, Config: fault, Case: fmt.Sprintf("%q", cor), Detail: d + fmt.Sprintf(" [from valid program %q]", orig), Payload: pl, Size: len(cor)})
			}
		})
	}
	n := 4
	if c.Thorough() {
		n = 5
	}
	gaps := make([]string, 8)
	for L := 1; L <= n; L++ {
		gen.EachSeq(len(gen.T), L, func(idx []int) bool {
			if !c.Next() {
				return true
			}
			if c.Tick() {
				return false
			}
			if !c02Prefilter(idx) {
				return true
			}
			ng := L - 1
			for mask := 0; mask < 1<<ng; mask++ {
				for g := 0; g < ng; g++ {
					gaps[g] = " "
					if mask>>g&1 == 1 {
						gaps[g] = "\n"
					}
				}
				src := c02Render(idx, gaps[:ng])
				if _, _, ok := ref.GShape(src); !ok {
					continue
				}
				c.Inc("valid_programs")
				handle(src, L)
				if nValid++; nValid%997 == 1 {
					c.Sample(src)
				}
			}
			return true
		})
	}
	// expression chains (depth <= 2) and statement families in the default layout and with each
	// optional semicolon replaced by a line break
	depth := 2
	gen.Chains(gen.Holes(c.Thorough()), gen.Leaves(), depth, true, func(e *gen.Node, name string) {
		if !c.Next() || c.Tick() {
			return
		}
		toks := gen.UnparseProgram([]*gen.Node{gen.Ex(e), gen.Ex(gen.I("z"))}, false)
		src := gen.RenderDefault(toks)
		if _, _, ok := ref.GShape(src); !ok {
			return
		}
		c.Inc("valid_programs")
		handle(src, len(toks))
	})
	level := 1
	if c.Thorough() {
		level = 2
	}
	gen.Programs(level, func(prog []*gen.Node, name string) {
		if !c.Next() || c.Tick() {
			return
		}
		toks := gen.UnparseProgram(prog, false)
		for _, semi := range []int{0, 1} {
			// a line break in every gap, except in front of a postfix operator (restricted production)
			src := gen.Render(toks, func(i int) string {
				if toks[i].Role == "postfix" {
					return " "
				}
				return "\n"
			}, func(int) int { return semi })
			if _, _, ok := ref.GShape(src); ok {
				c.Inc("valid_programs")
				c.Inc("all_lf_layout_programs")
				handle(src, len(toks))
			}
		}
		gen.Layouts(toks, 1, []string{"\n"}, func(src string, devs []gen.Dev) {
			if len(devs) == 1 && devs[0].Semi == 0 {
				return // only the default layout and the semicolon-less variants
			}
			if _, _, ok := ref.GShape(src); !ok {
				return
			}
			c.Inc("valid_programs")
			handle(src, len(toks))
		})
	})
	// two literals in one program: the first with escapes next to its closing delimiter, every fault
	// (in particular every truncation inside the second) applied
	for _, first := range []string{"`C:\\\\`", "`a\\\\\\\\`", "`\\``", "`a\\`b`", "'a\\\\'", "\"\\\\\"", "'\\''", "`\\\\\\``", "`x`"} {
		for _, second := range []string{"`k`", "`p q`", "' - '", "`\n`"} {
			for _, tmpl := range []string{"x = %1;\ny = %2;", "f(%1, %2)", "x = %1 + %2\nz = %2", "let r = [%1, a, %2]"} {
				if !c.Next() {
					continue
				}
				src := strings.ReplaceAll(strings.ReplaceAll(tmpl, "%1", first), "%2", second)
				if _, _, ok := ref.GShape(src); !ok {
					continue
				}
				c.Inc("valid_programs")
				c.Inc("two_literal_programs")
				handle(src, 20)
			}
		}
	}
	// statements whose last token spans several lines (multi-line template, continued string), followed
	// by another statement on the literal's last line or the next one
	for _, lit := range []string{"`one\ntwo`", "`\n`", "`a\n\n  b`", "'a\\\nb'", "`x`"} {
		for _, tmpl := range []string{"let s = %s\nlet t = 2", "x = %s\ny = 1", "f(%s)\ng()", "function h() {\n  return %s\n  z\n}", "s = [%s]\nt = 1", "if (a) b = %s\nc = 2",
			"let s = %s;\nlet t = 2;", "x = a + %s\n++y"} {
			if !c.Next() {
				continue
			}
			src := strings.ReplaceAll(tmpl, "%s", lit)
			if _, _, ok := ref.GShape(src); !ok {
				continue
			}
			c.Inc("valid_programs")
			c.Inc("multiline_literal_programs")
			handle(src, 20)
		}
	}
}

func c12Replay(pl json.RawMessage) (string, []core.Violation) {
	var p c12Payload
	json.Unmarshal(pl, &p)
	out := fmt.Sprintf("original %q fault %s corrupted %q", p.Orig, p.Fault, p.Src)
	dom, k, d := c12Check(p.Src, p.Intact)
	out += fmt.Sprintf(" in-domain=%v", dom)
	if k != "" {
		return out, []core.Violation{{Kind: k, Config: p.Fault, Case: fmt.Sprintf("%q", p.Src), Detail: d}}
	}
	return out, nil
}

func init() {
	core.Register(&core.PropSpec{
		ID: "C12", Level: "fault_enumeration",
		Rule:     "valid programs = every subset-valid token sequence <= n (4 quick, 5 thorough) in every {space,LF} layout, every expression chain of depth 2 and every statement-family program (default layout and with each semicolon replaced by a line break); faults = delete each token, join two lines (remove a line-break separator), delete each ';', truncate at every byte inside each string/template literal and after each token inside an open bracket pair or block; domain = corrupted texts the reference parser (goja) rejects both as script and as function body; oracle = strict parse reports an error whose first range starts no earlier than the last intact token. non-trivial = corrupted text in the domain (counted per fault kind) Added families: every statement-family program also with a line break in every gap (except before postfix operators), with and without semicolons; statements whose last token spans several lines; two-literal programs (9 first literals with escapes next to the closing delimiter x 4 second literals x 4 templates).",
		Assume:   []string{"goja's accept/reject verdict defines 'no longer valid JavaScript'"},
		QuickSec: 240, ThorSec: 1800, Run: c12Run, Replay: c12Replay,
		Evals: "corrupted_texts", Nontriv: "faults_in_domain",
	})
}

func rtokEndsExpr(t ref.RTok) bool {
	switch t.Kind {
	case ref.TIdent, ref.TInt, ref.TFloat, ref.TString, ref.TTemplate:
		return true
	case ref.TKeyword:
		return t.Text == "true" || t.Text == "false" || t.Text == "null"
	case ref.TPunct:
		return t.Text == ")" || t.Text == "]" || t.Text == "}"
	}
	return false
}
