package props

import (
	"encoding/json"
	"fmt"
	"sort"
	"strings"
	"time"

	"github.com/xjslang/xjs/ast"
	"github.com/xjslang/xjs/lexer"
	"github.com/xjslang/xjs/parser"
	"github.com/xjslang/xjs/token"

	"xmc/core"
	"xmc/ref"
)

// C05: custom operators and token types integrate consistently.
// (a) grouping: plugin operators vs the precedence-climbing reference R-prec (ref/rprec.go) and vs the
//     built-in operator of the same level (substitution oracle);
// (b) registry: every history of registrations on one builder pair in lock-step with the registry model
//     R-reg, with a probe set parsed after every step.

// ---- plugin expression nodes

type cNode struct {
	Kind string // cin | cpre | cpost
	Tok  token.Token
	L, R ast.Expression
}

func (n *cNode) WriteTo(cw *ast.CodeWriter) {
	cw.WriteString(n.Kind + "(")
	if n.L != nil {
		n.L.WriteTo(cw)
	}
	if n.R != nil {
		cw.WriteRune(',')
		n.R.WriteTo(cw)
	}
	cw.WriteRune(')')
}
func (n *cNode) Precedence() int { return ast.PrecedenceAtomic }
func (n *cNode) XShape(sub func(ast.Expression) string) string {
	part := func(e ast.Expression) string {
		if isNilNode(e) {
			return "(nil)"
		}
		return sub(e)
	}
	switch n.Kind {
	case "cin":
		return fmt.Sprintf("(cin %s %s %s)", n.Tok.Literal, part(n.L), part(n.R))
	case "cpre":
		return fmt.Sprintf("(cpre %s %s)", n.Tok.Literal, part(n.R))
	}
	return fmt.Sprintf("(cpost %s %s)", n.Tok.Literal, part(n.L))
}

// ---- a builder pair with registered spellings

type c05Env struct {
	lb    *lexer.Builder
	pb    *parser.Builder
	types map[string]token.Type // spelling -> token type the interceptor gives it
}

func newC05Env() *c05Env {
	e := &c05Env{lb: lexer.NewBuilder(), types: map[string]token.Type{}}
	e.pb = parser.NewBuilder(e.lb)
	e.lb.UseTokenInterceptor(func(l *lexer.Lexer, next func() token.Token) token.Token {
		t := next()
		if t.Type == token.IDENT {
			if ty, ok := e.types[t.Literal]; ok {
				t.Type = ty
			}
		}
		return t
	})
	return e
}

func (e *c05Env) regType(spelling string) token.Type {
	ty := e.lb.RegisterTokenType("tt_" + spelling)
	e.types[spelling] = ty
	return ty
}

func mkInfix(tok token.Token, left ast.Expression, right func() ast.Expression) ast.Expression {
	return &cNode{Kind: "cin", Tok: tok, L: left, R: right()}
}
func mkPrefix(tok token.Token, right func() ast.Expression) ast.Expression {
	return &cNode{Kind: "cpre", Tok: tok, R: right()}
}
func mkPostfix(tok token.Token, left ast.Expression) ast.Expression {
	return &cNode{Kind: "cpost", Tok: tok, L: left}
}

// c05Parse parses one expression statement; returns shape or the first error.
func c05Parse(e *c05Env, src string) (shape string, errText string, pan string) {
	o := parseWith(e.pb, src)
	if o.Panic != "" {
		return "", "", o.Panic
	}
	if o.Err != nil {
		return "", o.Errs[0].Message, ""
	}
	return ref.XStmts(o.Prog.Statements), "", ""
}

// c05Compare: xjs with the plugin configuration vs R-prec with the table.
func c05Compare(e *c05Env, toks []string, tab *ref.PrecTable) (kind, detail string) {
	src := strings.Join(toks, " ")
	got, gerr, pan := c05Parse(e, src)
	if pan != "" {
		return "panic", pan
	}
	want, why, ok := ref.PrecParse(toks, tab)
	switch {
	case ok && gerr != "":
		return "rejected", fmt.Sprintf("%q: reference grouping %s, xjs reports %q", src, want, gerr)
	case !ok && gerr == "":
		return "accepted", fmt.Sprintf("%q: reference rejects (%s), xjs accepts with tree %s", src, why, got)
	case ok && got != want:
		return "grouping", fmt.Sprintf("%q: xjs groups %s, a left-associative operator of that level groups %s", src, got, want)
	}
	return "", ""
}

// ---- (a) grouping universe

type c05Payload struct {
	Clause string   `json:"clause"`
	Toks   []string `json:"toks,omitempty"`
	LX     int      `json:"lx,omitempty"`
	LY     int      `json:"ly,omitempty"`
	Hist   []string `json:"hist,omitempty"`
}

var c05Binary = []string{"+", "-", "*", "/", "%", "==", "!=", "<", ">", "<=", ">=", "&&", "||", "=", "+=", "-="}
var c05Pre = []string{"-", "!", "++", "P"}
var c05Suf = [][]string{{"++"}, {"Q"}, {"(", ")"}, {".", "p"}, {"[", "1", "]"}, {"(", "d", ")"}}

// c05GroupEnv: X infix at lx, Y infix at ly, P prefix, Q postfix.
func c05GroupEnv(lx, ly int) (*c05Env, *ref.PrecTable, string) {
	e := newC05Env()
	tab := ref.NewPrecTable()
	var errs []string
	note := func(err error) {
		if err != nil {
			errs = append(errs, err.Error())
		}
	}
	note(e.pb.RegisterInfixOperator(e.regType("X"), lx, mkInfix))
	tab.Infix["X"] = lx
	if ly > 0 {
		note(e.pb.RegisterInfixOperator(e.regType("Y"), ly, mkInfix))
		tab.Infix["Y"] = ly
	}
	note(e.pb.RegisterPrefixOperator(e.regType("P"), mkPrefix))
	tab.Prefix["P"] = true
	note(e.pb.RegisterPostfixOperator(e.regType("Q"), mkPostfix))
	tab.Postfix["Q"] = true
	return e, tab, strings.Join(errs, "; ")
}

// builtinAt returns a built-in binary operator of the level, if there is one.
func builtinAt(level int) string {
	switch level {
	case 3:
		return "||"
	case 4:
		return "&&"
	case 5:
		return "=="
	case 6:
		return "<"
	case 7:
		return "+"
	case 8:
		return "*"
	}
	return ""
}

func c05Strings(nops int, ops []string, f func(toks []string, decorated bool)) {
	operands := []string{"a", "b", "c", "d"}
	idx := make([]int, nops)
	for {
		// undecorated + each single decoration of each operand
		build := func(dec int, pre string, suf []string) []string {
			var t []string
			for i := 0; i <= nops; i++ {
				if i > 0 {
					t = append(t, ops[idx[i-1]])
				}
				if i == dec && pre != "" {
					t = append(t, pre)
				}
				t = append(t, operands[i])
				if i == dec {
					t = append(t, suf...)
				}
			}
			return t
		}
		f(build(-1, "", nil), false)
		for d := 0; d <= nops; d++ {
			for _, pre := range c05Pre {
				f(build(d, pre, nil), true)
				for _, suf := range c05Suf {
					f(build(d, pre, suf), true)
				}
			}
			for _, suf := range c05Suf {
				f(build(d, "", suf), true)
			}
		}
		i := nops - 1
		for i >= 0 {
			idx[i]++
			if idx[i] < len(ops) {
				break
			}
			idx[i] = 0
			i--
		}
		if i < 0 {
			return
		}
	}
}

func c05Group(c *core.Ctx) {
	report := func(k, d string, toks []string, lx, ly int, clause string) {
		if k == "" || !c.ShrinkOK(clause+k) {
			return
		}
		if clause == "group" {
			if e, tab, rerr := c05GroupEnv(lx, ly); rerr == "" {
				fails := func(x []string) bool { kk, _ := c05Compare(e, x, tab); return kk == k }
				toks = core.ShrinkSeq(toks, func(t string) []string {
					switch t {
					case "a":
						return nil
					case "b", "c", "d":
						return []string{"a"}
					case "X", "Y", "P", "Q", "+":
						return nil
					}
					return []string{"+"}
				}, fails)
				_, d = c05Compare(e, toks, tab)
			}
		}
		pl, _ := json.Marshal(c05Payload{Clause: clause, Toks: toks, LX: lx, LY: ly})
		c.Violate(core.Violation{Kind: clause + "-" + k, Config: fmt.Sprintf("X@%d,Y@%d", lx, ly), Case: strings.Join(toks, " "), Detail: d, Payload: pl, Size: len(toks)})
	}
	ops := append(append([]string{}, c05Binary...), "X", "Y")
	for lx := 1; lx <= 13; lx++ {
		lys := []int{7}
		if c.Thorough() {
			lys = []int{1, 2, 3, 4, 5, 6, 7, 8, 9, 10, 11, 12, 13}
		}
		for _, ly := range lys {
			e, tab, rerr := c05GroupEnv(lx, ly)
			if rerr != "" {
				report("registration-refused", rerr, []string{"X"}, lx, ly, "group")
				continue
			}
			maxOps := 2
			if c.Thorough() && (ly == 7 || ly == lx) {
				maxOps = 3
			}
			for nops := 1; nops <= maxOps; nops++ {
				c05Strings(nops, ops, func(toks []string, decorated bool) {
					if !c.Next() || c.Tick() {
						return
					}
					hasX := false
					for _, t := range toks {
						if t == "X" || t == "Y" || t == "P" || t == "Q" {
							hasX = true
						}
					}
					if !hasX && lx > 1 {
						return // pure built-in strings once
					}
					c.Cur(strings.Join(toks, " "))
					c.Inc("grouping_cases")
					k, d := c05Compare(e, toks, tab)
					if k == "" {
						c.Inc("grouping_cases_agree")
					}
					// non-trivial: a plugin operator with a built-in operator as direct neighbour on some side
					mixed := false
					for i, t := range toks {
						if t == "X" || t == "Y" || t == "P" || t == "Q" {
							for _, j := range []int{i - 2, i - 1, i + 1, i + 2} {
								if j >= 0 && j < len(toks) && !isIdentLike(toks[j]) {
									mixed = true
								}
							}
						}
					}
					if mixed {
						c.Inc("cases_mixing_plugin_and_builtin_operators")
					}
					report(k, d, append([]string{}, toks...), lx, ly, "group")
					if c.Count0()%30011 == 0 {
						c.Sample(fmt.Sprintf("X@%d Y@%d: %s", lx, ly, strings.Join(toks, " ")))
					}
				})
			}
			// substitution oracle: X at a level that has a built-in operator groups like that operator
			if b := builtinAt(lx); b != "" {
				plain := newC05Env()
				plain.regType("P")
				plain.regType("Q")
				plain.pb.RegisterPrefixOperator(plain.types["P"], mkPrefix)
				plain.pb.RegisterPostfixOperator(plain.types["Q"], mkPostfix)
				if ly > 0 {
					plain.pb.RegisterInfixOperator(plain.regType("Y"), ly, mkInfix)
				}
				c05Strings(2, ops, func(toks []string, decorated bool) {
					if !c.Next() || c.Tick() {
						return
					}
					has := false
					sub := make([]string, len(toks))
					for i, t := range toks {
						sub[i] = t
						if t == "X" {
							sub[i] = b
							has = true
						}
					}
					if !has {
						return
					}
					c.Inc("substitution_cases")
					g1, e1, p1 := c05Parse(e, strings.Join(toks, " "))
					g2, e2, p2 := c05Parse(plain, strings.Join(sub, " "))
					if p1 != "" || p2 != "" {
						return
					}
					g2 = strings.ReplaceAll(g2, "(bin "+b+" ", "(cin X ")
					g1 = strings.ReplaceAll(g1, "(bin "+b+" ", "(cin X ")
					if (e1 == "") != (e2 == "") {
						report("substitution-acceptance", fmt.Sprintf("%q: error %q; with the built-in %s in place of X: error %q", strings.Join(toks, " "), e1, b, e2), append([]string{}, toks...), lx, ly, "subst")
					} else if e1 == "" && g1 != g2 {
						report("substitution-grouping", fmt.Sprintf("%q groups %s; with the built-in %s in place of X it groups %s", strings.Join(toks, " "), g1, b, g2), append([]string{}, toks...), lx, ly, "subst")
					}
				})
			}
		}
		if !c.Expired() {
			c.SetMax("levels_completed", int64(lx))
		}
	}
}

func isIdentLike(s string) bool {
	c := s[0]
	return c >= 'a' && c <= 'z' || c >= 'A' && c <= 'Z' || c >= '0' && c <= '9'
}

// ---- (b) registry histories

type c05Op struct {
	Kind  string // T (token type) | P | I | S
	Name  string // T: type name; else token spelling: X Y (custom), + ! ++ ( (built-in)
	Level int
}

func (o c05Op) String() string {
	switch o.Kind {
	case "T":
		return "RegisterTokenType(" + o.Name + ")"
	case "P":
		return "RegisterPrefixOperator(" + o.Name + ")"
	case "I":
		return fmt.Sprintf("RegisterInfixOperator(%s,%d)", o.Name, o.Level)
	}
	return "RegisterPostfixOperator(" + o.Name + ")"
}

var c05BuiltinTok = map[string]token.Type{"+": token.PLUS, "!": token.NOT, "++": token.INCREMENT, "(": token.LPAREN}

func c05Alphabet() []c05Op {
	var a []c05Op
	for _, n := range []string{"X", "Y", "Z"} {
		a = append(a, c05Op{Kind: "T", Name: n})
	}
	for _, t := range []string{"X", "Y", "+", "!", "++", "("} {
		a = append(a, c05Op{Kind: "P", Name: t})
	}
	for _, t := range []string{"X", "Y", "+", "!", "++", "("} {
		for _, l := range []int{4, 8} {
			a = append(a, c05Op{Kind: "I", Name: t, Level: l})
		}
	}
	// postfix on "(" is left out: the postfix and infix roles share one table in the implementation and the
	// property does not say what registering a postfix role for a token with a built-in infix role means
	for _, t := range []string{"X", "Y", "!", "++"} {
		a = append(a, c05Op{Kind: "S", Name: t})
	}
	return a
}

// R-reg: the registry model
type c05Model struct {
	names   map[string]bool // registered type names
	prefix  map[string]bool
	infix   map[string]int
	postfix map[string]bool
}

var builtinPrefixRole = map[string]bool{"!": true, "++": true, "(": true, "-": true, "--": true, "[": true}
var builtinInfixRole = map[string]bool{"+": true, "++": true, "(": true}
var builtinPostfixRole = map[string]bool{"++": true}

func newC05Model() *c05Model {
	return &c05Model{names: map[string]bool{}, prefix: map[string]bool{}, infix: map[string]int{}, postfix: map[string]bool{}}
}

func (m *c05Model) enabled(o c05Op) bool {
	if o.Kind == "T" {
		return true
	}
	if _, builtin := c05BuiltinTok[o.Name]; builtin {
		return true
	}
	return m.names[o.Name] // an operator on a custom token needs its id
}

// step returns whether the call must be refused.
func (m *c05Model) step(o c05Op) (refused bool) {
	switch o.Kind {
	case "T":
		m.names[o.Name] = true
	case "P":
		if builtinPrefixRole[o.Name] || m.prefix[o.Name] {
			return true
		}
		m.prefix[o.Name] = true
	case "I":
		if builtinInfixRole[o.Name] || m.infix[o.Name] != 0 {
			return true
		}
		m.infix[o.Name] = o.Level
	case "S":
		if builtinPostfixRole[o.Name] || m.postfix[o.Name] {
			return true
		}
		m.postfix[o.Name] = true
	}
	return false
}

func (m *c05Model) table() (*ref.PrecTable, map[string]bool) {
	t := ref.NewPrecTable()
	amb := map[string]bool{}
	for n := range m.names {
		if !m.prefix[n] && m.infix[n] == 0 && !m.postfix[n] {
			t.Dead[n] = true
		}
	}
	for n := range m.prefix {
		t.Prefix[n] = true
	}
	for n, l := range m.infix {
		t.Infix[n] = l
		if m.postfix[n] {
			amb[n] = true
		}
	}
	for n := range m.postfix {
		t.Postfix[n] = true
	}
	return t, amb
}

func (m *c05Model) key() string {
	var parts []string
	for n := range m.names {
		parts = append(parts, "t"+n)
	}
	for n := range m.prefix {
		parts = append(parts, "p"+n)
	}
	for n, l := range m.infix {
		parts = append(parts, fmt.Sprintf("i%s%d", n, l))
	}
	for n := range m.postfix {
		parts = append(parts, "s"+n)
	}
	sort.Strings(parts)
	return strings.Join(parts, ",")
}

var c05Probes = [][]string{
	{"a", "X", "b"}, {"a", "X", "b", "X", "c"}, {"a", "X", "b", "*", "c"}, {"a", "*", "b", "X", "c"}, {"a", "X", "b", "==", "c"}, {"a", "&&", "b", "X", "c"},
	{"a", "+", "b", "X", "c"}, {"X", "a"}, {"X", "a", "*", "b"}, {"-", "X", "a"}, {"a", "X"}, {"a", "X", "X"}, {"-", "a", "X"}, {"a", "Y", "b", "X", "c"},
	{"a", "X", "b", "Y", "c"}, {"+", "a"}, {"a", "+", "+", "b"}, {"a", "+", "b", "*", "c"}, {"a", "!", "b"}, {"a", "!", "b", "*", "c"}, {"!", "a", "!", "b"}, {"!", "a"},
	{"a", "++"}, {"++", "a"}, {"a", "(", "b", ")"}, {"a", "X", "(", "b", ")"}, {"(", "a", "X", "b", ")"}, {"a", "=", "b", "X", "c"}, {"X"}, {"a", "X", "Y"},
	{"Y", "a", "X", "b"}, {"a", ".", "p", "X"}, {"X", "a", "(", "b", ")"}, {"X", "a", "X"}, {"X", "a", "++"}, {"X", "a", ".", "p"}, {"X", "a", "[", "b", "]"}, {"X", "X", "a"},
	{"Y", "a", "Y"}, {"+", "a", "(", "b", ")"}, {"a", "!", "(", "b", ")"}, {"a", "[", "b", "X", "c", "]"}, {"a", "Z", "b"}, {"Z", "a"}, {"a", "Y"}, {"a", "+", "b"}, {"a", "*", "b", "+", "c"},
}

type c05Hist struct {
	env    *c05Env
	ids    map[string]token.Type
	refuse []bool
}

// c05Replay executes a history on a fresh builder pair, checking every return value against the model.
func c05RunHist(hist []c05Op) (kind, detail string, env *c05Env, m *c05Model) {
	env = newC05Env()
	m = newC05Model()
	ids := map[string]token.Type{}
	seenIDs := map[token.Type]string{}
	for i, o := range hist {
		where := fmt.Sprintf("step %d %s", i, o)
		if i > 0 {
			// builders build many parsers: a parser is built and used between any two registrations, so that
			// state cached at Build time cannot hide a later registration
			if k, d, _ := c05ProbeSet(env, m, c05MiniProbes); k != "" {
				return "interleaved-" + k, fmt.Sprintf("after step %d (parser built between registrations): %s", i-1, d), env, m
			}
		}
		if o.Kind == "T" {
			id := env.regType(o.Name)
			if old, ok := ids[o.Name]; ok && old != id {
				return "id-unstable", fmt.Sprintf("%s returned %d, the same name got %d before", where, id, old), env, m
			}
			if other, ok := seenIDs[id]; ok && other != o.Name {
				return "id-shared", fmt.Sprintf("%s returned %d, which name %q already has", where, id, other), env, m
			}
			if id <= token.NULL {
				return "id-builtin", fmt.Sprintf("%s returned %d, a built-in token type (%s)", where, id, id), env, m
			}
			ids[o.Name] = id
			seenIDs[id] = o.Name
			m.step(o)
			continue
		}
		ty, builtin := c05BuiltinTok[o.Name]
		if !builtin {
			ty = ids[o.Name]
		}
		var err error
		switch o.Kind {
		case "P":
			err = env.pb.RegisterPrefixOperator(ty, mkPrefix)
		case "I":
			err = env.pb.RegisterInfixOperator(ty, o.Level, mkInfix)
		case "S":
			err = env.pb.RegisterPostfixOperator(ty, mkPostfix)
		}
		refused := m.step(o)
		_ = refused
		if refused && err == nil {
			return "duplicate-accepted", fmt.Sprintf("%s: the token already has that role, but the registration returned no error", where), env, m
		}
		if !refused && err != nil {
			return "registration-refused", fmt.Sprintf("%s: the role was free, but the registration returned %v", where, err), env, m
		}
	}
	return "", "", env, m
}

var c05MiniProbes = [][]string{{"a", "X", "b", "*", "c"}, {"X", "a", "X"}, {"a", "Y"}, {"+", "a", "!", "b"}}

func c05Probe(env *c05Env, m *c05Model, only string) (kind, detail string, n int) {
	if only == "" {
		return c05ProbeSet(env, m, c05Probes)
	}
	var sel [][]string
	for _, pr := range c05Probes {
		for _, t := range pr {
			if t == only {
				sel = append(sel, pr)
				break
			}
		}
	}
	return c05ProbeSet(env, m, sel)
}

func c05ProbeSet(env *c05Env, m *c05Model, set [][]string) (kind, detail string, n int) {
	tab, amb := m.table()
	only := ""
probes:
	for _, pr := range set {
		if only != "" {
			found := false
			for _, t := range pr {
				if t == only {
					found = true
				}
			}
			if !found {
				continue
			}
		}
		for _, t := range pr {
			if amb[t] {
				continue probes
			}
		}
		n++
		if k, d := c05Compare(env, pr, tab); k != "" {
			return "probe-" + k, d, n
		}
	}
	return "", "", n
}

func c05Registry(c *core.Ctx) {
	alpha := c05Alphabet()
	depth := 4
	if c.Thorough() {
		depth = 5
	}
	c.Note("registry_alphabet", fmt.Sprint(len(alpha)))
	var hist []c05Op
	var rec func(d int, m *c05Model)
	rec = func(d int, m *c05Model) {
		if c.Tick() {
			return
		}
		if d > 0 {
			mine := d < 2 || c.Next() // shallow nodes are cheap: every worker runs them; deeper ones are sharded
			if mine && d >= 2 || (d < 2 && c.Shard == 0) {
				c.Cur(fmt.Sprint(hist))
				c.Inc("registry_histories")
				c.Inc("registry_transitions")
				k, dd, env, mm := c05RunHist(hist)
				if c.Distinct("registry_states", mm.key()) {
					c.Inc("registry_states")
				}
				if k == "" {
					last := hist[len(hist)-1]
					// probes: everything up to depth 3; deeper, the probes that mention the token of the last call
					only := ""
					if d >= 4 {
						only = last.Name
						if last.Kind == "T" {
							only = last.Name
						}
					}
					var n int
					k, dd, n = c05Probe(env, mm, only)
					c.Count("probe_parses", int64(n))
				}
				if k != "" && c.ShrinkOK("reg"+k) {
					var hs []string
					fails := func(x []c05Op) bool {
						kk, _, env2, m2 := c05RunHist(x)
						if kk == "" {
							kk, _, _ = c05Probe(env2, m2, "")
						}
						return kk == k
					}
					sh := core.ShrinkSeq(append([]c05Op{}, hist...), nil, fails)
					for _, o := range sh {
						hs = append(hs, o.String())
					}
					kk, d2, env2, m2 := c05RunHist(sh)
					if kk == "" {
						_, d2, _ = c05Probe(env2, m2, "")
					}
					if d2 != "" {
						dd = d2
					}
					pl, _ := json.Marshal(c05Payload{Clause: "registry", Hist: hs})
					c.Violate(core.Violation{Kind: "registry-" + k, Case: strings.Join(hs, "; "), Detail: dd, Payload: pl, Size: len(sh)})
				}
			}
		}
		if d == depth {
			return
		}
		for _, o := range alpha {
			if !m.enabled(o) {
				continue
			}
			// clone model
			n := newC05Model()
			for k := range m.names {
				n.names[k] = true
			}
			for k := range m.prefix {
				n.prefix[k] = true
			}
			for k, v := range m.infix {
				n.infix[k] = v
			}
			for k := range m.postfix {
				n.postfix[k] = true
			}
			n.step(o)
			hist = append(hist, o)
			rec(d+1, n)
			hist = hist[:len(hist)-1]
		}
	}
	rec(0, newC05Model())
	if !c.Expired() {
		c.SetMax("registry_depth_completed", int64(depth))
	}
}

// c05Long: long flat operator strings (one shape per length) mixing plugin and built-in operators.
func c05Long(c *core.Ctx) {
	cycles := [][]string{{"X"}, {"X", "+"}, {"*", "X", "+", "Y"}, {"Y", "X"}, {"X", "==", "Y", "||", "*"}}
	for _, lx := range []int{1, 3, 7, 8, 9, 12, 13} {
		e, tab, rerr := c05GroupEnv(lx, 7)
		if rerr != "" {
			continue
		}
		for _, n := range []int{9, 17, 33, 65, 129, 257} {
			for ci, cyc := range cycles {
				if !c.Next() || c.Tick() {
					continue
				}
				toks := []string{"a"}
				for i := 0; i < n; i++ {
					toks = append(toks, cyc[i%len(cyc)])
					if i%5 == 3 {
						toks = append(toks, "P")
					}
					toks = append(toks, []string{"b", "c", "d"}[i%3])
					if i%7 == 5 {
						toks = append(toks, "Q")
					}
				}
				c.Inc("grouping_cases")
				c.Inc("long_operator_strings")
				k, d := c05Compare(e, toks, tab)
				if k == "" {
					c.Inc("grouping_cases_agree")
				} else if c.ShrinkOK("long" + k) {
					pl, _ := json.Marshal(c05Payload{Clause: "group", Toks: toks, LX: lx, LY: 7})
					c.Violate(core.Violation{Kind: "group-" + k, Config: fmt.Sprintf("X@%d,Y@7,long", lx), Case: fmt.Sprintf("%d operators, cycle %d", n, ci), Detail: core.Short(d, 500), Payload: pl, Size: 1000 + n})
				}
			}
		}
	}
}

// c05ManyTypes: the operator tokens are the k-th token types registered on the lexer builder (a plugin that
// reserves many words first); grouping must not depend on k.
func c05ManyTypes(c *core.Ctx) {
	for _, k := range []int{1, 15, 16, 17, 31, 32, 33, 63, 64, 65, 127, 128, 129, 255, 256, 257, 1000} {
		for _, lx := range []int{6, 8, 11} {
			if !c.Next() || c.Tick() {
				continue
			}
			e := newC05Env()
			for i := 0; i < k; i++ {
				e.lb.RegisterTokenType(fmt.Sprintf("reserved%d", i))
			}
			tab := ref.NewPrecTable()
			var errs []string
			note := func(err error) {
				if err != nil {
					errs = append(errs, err.Error())
				}
			}
			note(e.pb.RegisterInfixOperator(e.regType("X"), lx, mkInfix))
			tab.Infix["X"] = lx
			for i := 0; i < k/3; i++ {
				e.lb.RegisterTokenType(fmt.Sprintf("more%d", i))
			}
			note(e.pb.RegisterPrefixOperator(e.regType("P"), mkPrefix))
			tab.Prefix["P"] = true
			note(e.pb.RegisterPostfixOperator(e.regType("Q"), mkPostfix))
			tab.Postfix["Q"] = true
			note(e.pb.RegisterInfixOperator(e.regType("Y"), 7, mkInfix))
			tab.Infix["Y"] = 7
			if len(errs) > 0 {
				c.Violate(core.Violation{Kind: "group-registration-refused", Config: fmt.Sprintf("after %d token types", k), Case: strings.Join(errs, "; "), Detail: "registrations of fresh tokens refused", Size: 1})
				continue
			}
			for _, toks := range [][]string{{"a", "X", "b", "*", "c"}, {"a", "*", "b", "X", "c"}, {"a", "X", "b", "Y", "c"}, {"P", "a", "X", "b"}, {"a", "X", "b", "Q"}, {"-", "a", "Q", "X", "b", "(", ")"}, {"a", "Y", "b", "X", "c", "Y", "d"}} {
				c.Inc("grouping_cases")
				c.Inc("many_token_type_cases")
				kd, d := c05Compare(e, toks, tab)
				if kd == "" {
					c.Inc("grouping_cases_agree")
				} else if c.ShrinkOK("many" + kd) {
					c.Violate(core.Violation{Kind: "group-" + kd, Config: fmt.Sprintf("X@%d after %d token types", lx, k), Case: strings.Join(toks, " "), Detail: d, Size: 1000 + k})
				}
			}
		}
	}
}

// c05Primary: the configuration of the repository's own example — an expression interceptor that recognises a
// custom primary (identifier R) and continues with ParseRemainingExpression — together with registered
// operators: R must behave like any other operand next to them.
func c05Primary(c *core.Ctx) {
	for _, lx := range []int{2, 5, 7, 8, 9, 11} {
		e, tab, rerr := c05GroupEnv(lx, 7)
		if rerr != "" {
			continue
		}
		e.pb.UseExpressionInterceptor(func(p *parser.Parser, next func() ast.Expression) ast.Expression {
			if p.CurrentToken.Type == token.IDENT && p.CurrentToken.Literal == "R" {
				return p.ParseRemainingExpression(&ast.Identifier{Token: p.CurrentToken, Value: "R"})
			}
			return next()
		})
		ops := []string{"X", "Y", "+", "*", "==", "||", "="}
		for _, o1 := range ops {
			for _, o2 := range ops {
				for pos := 0; pos < 3; pos++ {
					for _, wrap := range [][]string{nil, {"P"}, {"-"}, {"(", ")"}, {"let"}, {"f("}} {
						if !c.Next() || c.Tick() {
							continue
						}
						opnd := []string{"a", "b", "c"}
						opnd[pos] = "R"
						toks := []string{opnd[0], o1, opnd[1], o2, opnd[2]}
						switch {
						case len(wrap) == 1 && (wrap[0] == "P" || wrap[0] == "-"):
							toks = append([]string{wrap[0]}, toks...)
						case len(wrap) == 2:
							toks = append(append([]string{"("}, toks...), ")")
						case len(wrap) == 1 && wrap[0] == "f(":
							toks = append(append([]string{"f", "("}, toks...), ")")
						case len(wrap) == 1 && wrap[0] == "let":
							continue // a let statement is not an expression statement for the reference
						}
						c.Inc("grouping_cases")
						c.Inc("custom_primary_cases")
						k, d := c05Compare(e, toks, tab)
						if k == "" {
							c.Inc("grouping_cases_agree")
						} else if c.ShrinkOK("prim" + k) {
							pl, _ := json.Marshal(c05Payload{Clause: "group", Toks: toks, LX: lx, LY: 7})
							c.Violate(core.Violation{Kind: "group-" + k, Config: fmt.Sprintf("X@%d,Y@7,custom primary R via expression interceptor", lx), Case: strings.Join(toks, " "), Detail: d, Payload: pl, Size: len(toks)})
						}
					}
				}
			}
		}
	}
}

// c05Layout: grouping does not depend on where the lines break or on the parser mode. Built-in binary
// operators continue an expression across a line break on either side in every mode (C02/C13 establish that);
// "exactly like a built-in operator of that level" therefore means: for X at every level, every operator
// string with line breaks before and/or after each X, in each of the four modes, parses like the same
// string on one line in that mode, and - at levels that have a built-in operator b - like the same layout
// with b in place of X.
func c05Layout(c *core.Ctx) {
	ops := []string{"X", "+", "*", "==", "=", "||"}
	for lx := 1; lx <= 13; lx++ {
		for mi, m := range Modes {
			mk := func(withX bool) *c05Env {
				e := newC05Env()
				if withX {
					e.pb.RegisterInfixOperator(e.regType("X"), lx, mkInfix)
				}
				e.pb.RegisterInfixOperator(e.regType("Y"), 7, mkInfix)
				e.pb.RegisterPrefixOperator(e.regType("P"), mkPrefix)
				e.pb.RegisterPostfixOperator(e.regType("Q"), mkPostfix)
				e.pb.WithTolerantMode(m.Tolerant)
				e.pb.WithSmartSemicolon(m.Smart)
				return e
			}
			e, plain := mk(true), mk(false)
			b := builtinAt(lx)
			for nops := 1; nops <= 2; nops++ {
				c05Strings(nops, ops, func(toks []string, decorated bool) {
					if !c.Next() || c.Tick() {
						return
					}
					var xs []int
					for i, t := range toks {
						if t == "X" {
							xs = append(xs, i)
						}
					}
					if len(xs) == 0 {
						return
					}
					c.Cur(strings.Join(toks, " "))
					flat, flatErr, pan := c05Parse(e, strings.Join(toks, " "))
					if pan != "" {
						return // c05Group's subject
					}
					// every assignment of {none, before, after, both} to every X
					total := 1
					for range xs {
						total *= 4
					}
					for code := 1; code < total; code++ {
						var sb, sbSub strings.Builder
						cc := code
						brk := map[int]bool{} // gap index g = between toks[g-1] and toks[g]
						for _, xi := range xs {
							if cc&1 != 0 {
								brk[xi] = true
							}
							if cc&2 != 0 {
								brk[xi+1] = true
							}
							cc >>= 2
						}
						for i, t := range toks {
							if i > 0 {
								sep := " "
								if brk[i] {
									sep = "\n"
								}
								sb.WriteString(sep)
								sbSub.WriteString(sep)
							}
							sb.WriteString(t)
							if t == "X" {
								sbSub.WriteString(b)
							} else {
								sbSub.WriteString(t)
							}
						}
						src := sb.String()
						c.Inc("layout_cases")
						got, gerr, pan := c05Parse(e, src)
						if pan != "" {
							c05LayoutReport(c, "panic", fmt.Sprintf("%q: %s", src, pan), src, lx, mi)
							continue
						}
						if (gerr == "") != (flatErr == "") {
							c05LayoutReport(c, "line-break-changes-acceptance", fmt.Sprintf("%q: error %q; on one line: error %q (a built-in binary operator continues across line breaks on either side in every mode)", src, gerr, flatErr), src, lx, mi)
						} else if gerr == "" && got != flat {
							c05LayoutReport(c, "line-break-changes-grouping", fmt.Sprintf("%q groups %s; on one line it groups %s", src, got, flat), src, lx, mi)
						}
						if b != "" {
							c.Inc("substitution_cases")
							g2, e2, p2 := c05Parse(plain, sbSub.String())
							if p2 != "" {
								continue
							}
							g1 := strings.ReplaceAll(got, "(bin "+b+" ", "(cin X ")
							g2 = strings.ReplaceAll(g2, "(bin "+b+" ", "(cin X ")
							if (gerr == "") != (e2 == "") {
								c05LayoutReport(c, "substitution-acceptance", fmt.Sprintf("%q: error %q; with the built-in %s in place of X: error %q", src, gerr, b, e2), src, lx, mi)
							} else if gerr == "" && g1 != g2 {
								c05LayoutReport(c, "substitution-grouping", fmt.Sprintf("%q groups %s; with the built-in %s in place of X it groups %s", src, g1, b, g2), src, lx, mi)
							}
						}
					}
				})
			}
		}
	}
}

// c05PostfixOnBuiltin: a postfix operator registered on a token that has a built-in INFIX level (the role is
// free, so the registration is accepted) binds like a call-level suffix all the same: every operator string in
// which that token occurs in postfix position only parses exactly like the same string with a custom postfix
// token Q in its place.
func c05PostfixOnBuiltin(c *core.Ctx) {
	binary := []string{"+", "-", "*", "/", "%", "==", "!=", "<", ">", "<=", ">=", "&&", "||"}
	mk := func(t string) (*c05Env, string) {
		e := newC05Env()
		e.pb.RegisterPrefixOperator(e.regType("P"), mkPrefix)
		var err error
		if t == "Q" {
			err = e.pb.RegisterPostfixOperator(e.regType("Q"), mkPostfix)
		} else if strings.HasPrefix(t, "Z:") {
			// a plugin token that is given an infix role as well (before or after the postfix one): both
			// registrations are accepted; its postfix uses are call-level suffixes all the same
			ty := e.regType("Z")
			lvl := int(t[4] - '0')
			if t[2] == 'i' {
				err = e.pb.RegisterInfixOperator(ty, lvl, mkInfix)
			}
			if err == nil {
				err = e.pb.RegisterPostfixOperator(ty, mkPostfix)
			}
			if err == nil && t[2] == 'p' {
				err = e.pb.RegisterInfixOperator(ty, lvl, mkInfix)
			}
		} else {
			err = e.pb.RegisterPostfixOperator(punctType[t], mkPostfix)
		}
		if err != nil {
			return nil, err.Error()
		}
		return e, ""
	}
	ref, _ := mk("Q")
	subjects := append(append([]string{}, binary...), "Z:i:3", "Z:p:3", "Z:i:7", "Z:p:7", "Z:p:9")
	for ti, t := range subjects {
		if !c.Mine(int64(ti)) || c.Tick() {
			continue
		}
		env, refused := mk(t)
		if env == nil {
			if c.ShrinkOK("pfx-refused") {
				pl, _ := json.Marshal(c05Payload{Clause: "postfix-on-builtin", Toks: []string{t}})
				c.Violate(core.Violation{Kind: "postfix-on-builtin-registration-refused", Config: "postfix on " + t, Case: t, Detail: "RegisterPostfixOperator on a token without a postfix role was refused: " + refused, Payload: pl, Size: 1})
			}
			continue
		}
		var ops []string
		for _, o := range binary {
			if o != t {
				ops = append(ops, o)
			}
		}
		ops = append(ops, "=")
		for nops := 0; nops <= 2; nops++ {
			c05Strings(nops, ops, func(toks []string, decorated bool) {
				if c.Tick() {
					return
				}
				has := false
				sub := make([]string, len(toks))
				spell := t
				if strings.HasPrefix(t, "Z:") {
					spell = "Z"
				}
				for i, x := range toks {
					sub[i] = x
					if x == "Q" {
						sub[i] = spell
						has = true
					}
					if x == t {
						return // the token in another role (prefix - etc.): not the subject
					}
				}
				if !has {
					return
				}
				c.Cur(strings.Join(sub, " "))
				c.Inc("postfix_on_builtin_cases")
				g1, e1, p1 := c05Parse(env, strings.Join(sub, " "))
				g2, e2, p2 := c05Parse(ref, strings.Join(toks, " "))
				if p1 != "" || p2 != "" {
					if p1 != "" && p2 == "" && c.ShrinkOK("pfx-panic") {
						pl, _ := json.Marshal(c05Payload{Clause: "postfix-on-builtin", Toks: append([]string{t}, toks...)})
						c.Violate(core.Violation{Kind: "postfix-on-builtin-panic", Config: "postfix on " + t, Case: strings.Join(sub, " "), Detail: p1, Payload: pl, Size: len(toks)})
					}
					return
				}
				g2 = strings.ReplaceAll(g2, "(cpost Q ", "(cpost "+spell+" ")
				k, d := "", ""
				if (e1 == "") != (e2 == "") {
					k, d = "postfix-on-builtin-acceptance", fmt.Sprintf("%q with a postfix operator registered on %s: error %q; the same string with a custom postfix token: error %q", strings.Join(sub, " "), t, e1, e2)
				} else if e1 == "" && g1 != g2 {
					k, d = "postfix-on-builtin-grouping", fmt.Sprintf("%q with a postfix operator registered on %s groups %s; a call-level suffix groups %s", strings.Join(sub, " "), t, g1, g2)
				}
				if k != "" && c.ShrinkOK(k) {
					pl, _ := json.Marshal(c05Payload{Clause: "postfix-on-builtin", Toks: append([]string{t}, toks...)})
					c.Violate(core.Violation{Kind: k, Config: "postfix on " + t, Case: strings.Join(sub, " "), Detail: d, Payload: pl, Size: len(toks)})
				}
			})
		}
	}
}

func c05LayoutReport(c *core.Ctx, k, d, src string, lx, mi int) {
	if !c.ShrinkOK("layout" + k + Modes[mi].String()) {
		return
	}
	pl, _ := json.Marshal(c05Payload{Clause: "layout", Toks: []string{src}, LX: lx, LY: mi})
	c.Violate(core.Violation{Kind: "layout-" + k, Config: fmt.Sprintf("X@%d,%s", lx, Modes[mi]), Case: fmt.Sprintf("%q", src), Detail: d, Payload: pl, Size: len(src)})
}

func c05Run(c *core.Ctx) {
	processWarmup(c)
	c05PostfixOnBuiltin(c)
	c05Layout(c)
	c05Group(c)
	c05Primary(c)
	c05ManyTypes(c)
	c05Long(c)
	c05Registry(c)
}

func parseC05Op(s string) c05Op {
	var o c05Op
	switch {
	case strings.HasPrefix(s, "RegisterTokenType("):
		o.Kind = "T"
		o.Name = s[len("RegisterTokenType(") : len(s)-1]
	case strings.HasPrefix(s, "RegisterPrefixOperator("):
		o.Kind = "P"
		o.Name = s[len("RegisterPrefixOperator(") : len(s)-1]
	case strings.HasPrefix(s, "RegisterPostfixOperator("):
		o.Kind = "S"
		o.Name = s[len("RegisterPostfixOperator(") : len(s)-1]
	default:
		o.Kind = "I"
		in := s[len("RegisterInfixOperator(") : len(s)-1]
		i := strings.LastIndexByte(in, ',')
		o.Name = in[:i]
		fmt.Sscanf(in[i+1:], "%d", &o.Level)
	}
	return o
}

func c05Replay(pl json.RawMessage) (string, []core.Violation) {
	var p c05Payload
	json.Unmarshal(pl, &p)
	switch p.Clause {
	case "registry":
		var h []c05Op
		for _, s := range p.Hist {
			h = append(h, parseC05Op(s))
		}
		out := "registration history: " + strings.Join(p.Hist, "; ")
		k, d, env, m := c05RunHist(h)
		if k == "" {
			k, d, _ = c05Probe(env, m, "")
		}
		if k != "" {
			return out, []core.Violation{{Kind: "registry-" + k, Case: strings.Join(p.Hist, "; "), Detail: d}}
		}
		return out, nil
	}
	if p.Clause == "postfix-on-builtin" {
		cx := core.NewCtx("C05", "quick", 0, 0, 1, time.Now().Add(10*time.Minute))
		c05PostfixOnBuiltin(cx)
		var vs []core.Violation
		for _, v := range cx.Violations() {
			if v.Config == "postfix on "+p.Toks[0] {
				vs = append(vs, v)
			}
		}
		return "postfix-on-built-in family re-run (postfix operator registered on " + p.Toks[0] + ")", vs
	}
	if p.Clause == "layout" {
		cx := core.NewCtx("C05", "quick", 0, 0, 1, time.Now().Add(10*time.Minute))
		c05Layout(cx)
		var vs []core.Violation
		for _, v := range cx.Violations() {
			if v.Case == fmt.Sprintf("%q", p.Toks[0]) {
				vs = append(vs, v)
			}
		}
		if len(vs) == 0 {
			vs = cx.Violations()
		}
		return fmt.Sprintf("layout family re-run (X at level %d, mode %s, source %q)", p.LX, Modes[p.LY%4], p.Toks[0]), vs
	}
	out := fmt.Sprintf("X infix at level %d, Y at %d, P prefix, Q postfix: %s", p.LX, p.LY, strings.Join(p.Toks, " "))
	e, tab, rerr := c05GroupEnv(p.LX, p.LY)
	if rerr != "" {
		return out, []core.Violation{{Kind: "group-registration-refused", Detail: rerr}}
	}
	if k, d := c05Compare(e, p.Toks, tab); k != "" {
		return out, []core.Violation{{Kind: "group-" + k, Config: fmt.Sprintf("X@%d,Y@%d", p.LX, p.LY), Case: strings.Join(p.Toks, " "), Detail: d}}
	}
	return out, nil
}

func init() {
	core.Register(&core.PropSpec{
		ID: "C05", Level: "model_checking",
		Rule:     "(a) grouping: plugin tokens X,Y (infix), P (prefix), Q (postfix) registered through the public builders; for every level 1..13 of X (x level 7 of Y quick; x every level of Y thorough) every flat operator string x o y o z (and x o y o z o w thorough) over the 16 built-in binary/assignment operators + X + Y, undecorated and with every single decoration of every operand by a prefix {-,!,++,P} and/or suffix {++,Q,(),.p,[1],(d)}, is parsed by the real parser and compared with the precedence-climbing reference R-prec (infix level L = left-associative at L, prefix operand at unary level, postfix at call level, assignment right-associative, targets must be assignable); plus a substitution oracle: X at a level that has a built-in binary operator groups exactly like that operator. (b) registry: every history <= depth 4 (5 thorough) over 25 calls {RegisterTokenType x3, RegisterPrefix/Infix(2 levels)/Postfix on two custom tokens and on + ! ++ (} on one builder pair, calls on custom tokens enabled once their type is registered, replayed on fresh builders in lock-step with the registry model R-reg: ids stable per name, distinct across names, above every built-in id; occupied role => error, free role => no error; after every step a probe set of 38 inputs parses to what R-prec predicts for the MODEL's table (so a refused registration provably left the parser unchanged; from depth 4 on, the probes that mention the token of the last call). states = distinct registry model states, transitions = history steps executed on the real builders; non-trivial = operator string in which a plugin operator has a built-in operator within two tokens (every string is distinct) Added: a parser is built and a mini probe set parsed between any two registrations of every history; probes on tokens holding a prefix and a postfix/infix role; operators registered after k in {1,15..17,31..33,63..65,127..129,255..257,1000} other token types; long flat operator strings of 9..257 operators over 5 operator cycles; layout x mode family: X at every level, operator strings with <= 2 operators over {X,+,*,==,=,||} and every single decoration, a line break before and/or after every X, in each of the 4 parser modes: same acceptance and grouping as on one line, and as the built-in operator of the level in the same layout; postfix operator registered on each of the 13 built-in binary operator tokens: every operator string (<= 2 operators, every decoration) that uses the token in postfix position only parses like the same string with a custom postfix token; the same for a plugin token that holds an infix role (levels 3, 7, 9) and a postfix role, registered in either order.",
		Assume:   []string{"a token that holds a postfix and an infix role at once: only its postfix uses are constrained (call-level suffix); registry probes that would use such a token as infix are skipped, postfix on ( is not in the alphabet", "plugin createExpr callbacks always request their operand"},
		QuickSec: 240, ThorSec: 1800, Run: c05Run, Replay: c05Replay,
		Evals: "grouping_cases", Nontriv: "cases_mixing_plugin_and_builtin_operators", States: "registry_states", Trans: "registry_transitions",
	})
}
