package props

import (
	"encoding/json"
	"fmt"
	"os"
	"strings"

	"github.com/xjslang/xjs/lexer"
	"github.com/xjslang/xjs/token"

	"xmc/core"
	"xmc/gen"
	"xmc/ref"
)

// C10: lexing is total and tokens tile the source. Universe: ALL byte strings up to length n over a
// 26-byte alphabet (one byte per lexer branch) and all sequences of well-formed lexeme fragments with
// every separator combination. Oracle: R-span (works from the spans the lexer claims) + R-tok on
// fragment sequences.

var lexAlphabet = []byte{'a', '1', '0', 'x', 'e', '.', '+', '-', '=', '!', '<', '&', '|', '/', '"', '\'', '`', '\\', ' ', '\n', '\r', '\t', '(', '{', 0xC3, 0}[:lexAlphaN()]

var punctType = map[string]token.Type{
	"=": token.ASSIGN, "+=": token.PLUS_ASSIGN, "-=": token.MINUS_ASSIGN, "+": token.PLUS, "-": token.MINUS,
	"*": token.MULTIPLY, "/": token.DIVIDE, "%": token.MODULO, "==": token.EQ, "!=": token.NOT_EQ,
	"<": token.LT, ">": token.GT, "<=": token.LTE, ">=": token.GTE, "&&": token.AND, "||": token.OR,
	"!": token.NOT, "++": token.INCREMENT, "--": token.DECREMENT, ",": token.COMMA, ";": token.SEMICOLON,
	":": token.COLON, ".": token.DOT, "(": token.LPAREN, ")": token.RPAREN, "{": token.LBRACE, "}": token.RBRACE,
	"[": token.LBRACKET, "]": token.RBRACKET,
}
var keywordType = map[string]token.Type{
	"function": token.FUNCTION, "let": token.LET, "if": token.IF, "else": token.ELSE, "while": token.WHILE,
	"for": token.FOR, "return": token.RETURN, "true": token.TRUE, "false": token.FALSE, "null": token.NULL,
}
var twoChar = map[string]bool{"==": true, "!=": true, "<=": true, ">=": true, "&&": true, "||": true, "++": true, "--": true, "+=": true, "-=": true}

// position base of the lexer (line/column of the first byte), calibrated on the input "a"
var lexBaseLine, lexBaseCol = func() (int, int) {
	defer func() { recover() }()
	t := lexer.NewBuilder().Build("a").NextToken()
	return t.Start.Line, t.Start.Column
}()

func posOff(src string, p token.Position) int {
	return ref.OffsetOf(src, p.Line-lexBaseLine, p.Column-lexBaseCol)
}

func lexAll(lb *lexer.Builder, src string) (toks []token.Token, kind, detail string) {
	defer func() {
		if r := recover(); r != nil {
			kind, detail = "panic", fmt.Sprint(r)
		}
	}()
	l := lb.Build(src)
	limit := 4*len(src) + 8
	eofs := 0
	for i := 0; i < limit; i++ {
		t := l.NextToken()
		toks = append(toks, t)
		if t.Type == token.EOF {
			eofs++
			if eofs == 3 {
				return toks, "", ""
			}
		} else if eofs > 0 {
			return toks, "token-after-eof", fmt.Sprintf("request %d returned %v after end-of-input", i, t)
		}
	}
	return toks, "no-eof", fmt.Sprintf("no stable end-of-input within %d requests", limit)
}

func isWS(c byte) bool { return c == ' ' || c == '\t' || c == '\n' || c == '\r' }

// gapOK: only white space and //-comments; a comment without terminating LF must reach the end of input.
func gapOK(gap string, reachesEOF bool) bool {
	i := 0
	for i < len(gap) {
		if isWS(gap[i]) {
			i++
			continue
		}
		if gap[i] == '/' && i+1 < len(gap) && gap[i+1] == '/' {
			k := strings.IndexByte(gap[i:], '\n')
			if k < 0 {
				return reachesEOF
			}
			i += k + 1
			continue
		}
		return false
	}
	return true
}

func isLet(c byte) bool { return c >= 'a' && c <= 'z' || c >= 'A' && c <= 'Z' || c == '_' || c == '$' }
func isDig(c byte) bool { return c >= '0' && c <= '9' }

// spanCheck is R-span.
func spanCheck(src string, toks []token.Token) (kind, detail string) {
	n := len(src)
	prev := 0 // offset just after the previous token's last byte
	for i, t := range toks {
		so, eo := posOff(src, t.Start), posOff(src, t.End)
		if t.Type == token.EOF {
			if so != n || eo != n {
				return "eof-position", fmt.Sprintf("request %d: end-of-input token %v at offsets %d..%d, source length %d", i, t, so, eo, n)
			}
			if prev <= n && !gapOK(src[prev:], true) {
				return "skipped-bytes", fmt.Sprintf("bytes %q before end-of-input belong to no token", src[prev:])
			}
			prev = n
			continue
		}
		if so < 0 || so >= n {
			return "start-outside", fmt.Sprintf("token %d %v: start offset %d outside source of length %d", i, t, so, n)
		}
		if eo < 0 {
			return "end-outside", fmt.Sprintf("token %d %v: end outside source", i, t)
		}
		var last int
		first := src[so]
		switch t.Type {
		case token.STRING, token.RAW_STRING:
			if t.Type == token.STRING && first != '"' && first != '\'' || t.Type == token.RAW_STRING && first != '`' {
				return "string-start", fmt.Sprintf("token %d %v does not start on its opening delimiter (byte %q at offset %d)", i, t, first, so)
			}
			// a closing delimiter candidate is acceptable if it is the delimiter and (for quoted
			// strings) not escaped; End may sit on it or immediately after it
			closing := func(p int) bool {
				if p <= so || p >= n || src[p] != first {
					return false
				}
				bs := 0
				for q := p - 1; q > so && src[q] == '\\'; q-- {
					bs++
				}
				return bs%2 == 0
			}
			term := true
			switch {
			case closing(eo):
				last = eo
			case closing(eo - 1):
				last = eo - 1
			default:
				term = false
				if eo != n && eo != n-1 {
					return "end-position", fmt.Sprintf("token %d %v: end offset %d is neither on/after a closing delimiter nor at the end of the source (%d)", i, t, eo, n)
				}
				last = n - 1
			}
			hi := last
			if !term {
				hi = last + 1
			}
			for p := so + 1; p < hi; p++ {
				if src[p] == first && src[p-1] != '\\' {
					return "string-span", fmt.Sprintf("token %d %v spans an unescaped delimiter at offset %d", i, t, p)
				}
			}
		case token.ILLEGAL:
			if first == '"' || first == '\'' || first == '`' {
				// an unterminated literal is reported as an ILLEGAL token: it must run to the end of the
				// source and must not contain an unescaped delimiter
				if eo != n && eo != n-1 {
					return "end-position", fmt.Sprintf("token %d %v: unterminated literal must end at the end of the source (%d), end offset %d", i, t, n, eo)
				}
				for p := so + 1; p < n; p++ {
					if src[p] == first && src[p-1] != '\\' {
						return "string-span", fmt.Sprintf("token %d %v is reported as unterminated but contains an unescaped delimiter at offset %d", i, t, p)
					}
				}
				last = n - 1
				break
			}
			last = so
			if eo != last && eo != last+1 {
				return "end-position", fmt.Sprintf("token %d %v: end offset %d, last byte %d", i, t, eo, last)
			}
		default:
			if t.Literal == "" {
				return "empty-literal", fmt.Sprintf("token %d %v has an empty literal", i, t)
			}
			last = so + len(t.Literal) - 1
			if last >= n || src[so:last+1] != t.Literal {
				hi := last + 1
				if hi > n {
					hi = n
				}
				return "literal-mismatch", fmt.Sprintf("token %d %v: literal %q but source at its start offset %d reads %q", i, t, t.Literal, so, src[so:hi])
			}
			if eo != last && eo != last+1 {
				return "end-position", fmt.Sprintf("token %d %v: end offset %d, last byte %d", i, t, eo, last)
			}
			// classification
			switch {
			case isLet(first):
				j := so
				for j < n && (isLet(src[j]) || isDig(src[j])) {
					j++
				}
				if j-1 != last {
					return "ident-munch", fmt.Sprintf("token %d %v: identifier run is %q", i, t, src[so:j])
				}
				want, isKw := keywordType[t.Literal]
				if !isKw {
					want = token.IDENT
				}
				if t.Type != want {
					return "keyword-class", fmt.Sprintf("token %d %v: %q must have type %v", i, t, t.Literal, want)
				}
			case isDig(first):
				if t.Type != token.INT && t.Type != token.FLOAT {
					return "number-class", fmt.Sprintf("token %d %v starts with a digit", i, t)
				}
			default:
				want, ok := punctType[t.Literal]
				if !ok || t.Type != want {
					return "operator-class", fmt.Sprintf("token %d %v: literal %q", i, t, t.Literal)
				}
				if len(t.Literal) == 1 && last+1 < n && twoChar[src[so:so+2]] {
					return "operator-munch", fmt.Sprintf("token %d %v: source reads %q", i, t, src[so:so+2])
				}
			}
		}
		if so < prev {
			return "overlap", fmt.Sprintf("token %d %v starts at offset %d inside the previous token (which ends at %d)", i, t, so, prev-1)
		}
		gap := src[prev:so]
		if !gapOK(gap, false) {
			return "skipped-bytes", fmt.Sprintf("bytes %q between tokens %d and %d belong to no token", gap, i-1, i)
		}
		hasLF := strings.IndexByte(gap, '\n') >= 0
		hasCR := strings.IndexByte(gap, '\r') >= 0
		if t.AfterNewline != hasLF && (hasLF || !hasCR) {
			return "after-newline", fmt.Sprintf("token %d %v: AfterNewline=%v but gap is %q", i, t, t.AfterNewline, gap)
		}
		prev = last + 1
	}
	return "", ""
}

func lexCheck(lb *lexer.Builder, src string) (string, string) {
	toks, k, d := lexAll(lb, src)
	if k != "" {
		return k, d
	}
	return spanCheck(src, toks)
}

var c10Fragments = []string{
	"a", "_b1", "$", "let", "function", "returnx", "iff", "null", "else",
	"0", "12", "1.5", "0.25", "1e3", "2E+5", "7e-2", "1.5e10", "0x1F", "0Xa", "0b101", "0B1", "0o17", "0O7",
	`"s"`, `'t'`, `""`, `'a\'b'`, `"a\\"`, `"\x41"`, `'\u{1F600}'`, "`r`", "`a\\`b`", "`x\ny`", "\"\xc3\xa9\"",
	"=", "+=", "-=", "+", "-", "*", "/", "%", "==", "!=", "<", ">", "<=", ">=", "&&", "||", "!", "++", "--",
	",", ";", ":", ".", "(", ")", "{", "}", "[", "]",
}
var c10Seps = []string{" ", "", "\n", "\r\n", " // c\n", "\t"}

// fragCheck compares the lexer with R-tok on a well-formed text whose intended tokens are frags.
// ok=false means the text is outside the domain (separators do not force the intended boundaries).
func fragCheck(lb *lexer.Builder, src string, frags []string) (ok bool, kind, detail string) {
	rt, err := ref.Tokenize(src)
	if err != nil || len(rt) != len(frags)+1 {
		return false, "", ""
	}
	for i, f := range frags {
		if rt[i].Text != f {
			return false, "", ""
		}
	}
	toks, k, d := lexAll(lb, src)
	if k != "" {
		return true, k, d
	}
	if k, d = spanCheck(src, toks); k != "" {
		return true, k, d
	}
	if len(toks) != len(rt)+2 {
		return true, "token-count", fmt.Sprintf("lexer produced %d tokens, reference %d", len(toks)-3, len(rt)-1)
	}
	for i, r := range rt[:len(rt)-1] {
		t := toks[i]
		if so := posOff(src, t.Start); so != r.Off {
			return true, "start", fmt.Sprintf("token %d %v starts at offset %d, reference %q at %d", i, t, so, r.Text, r.Off)
		}
		var want token.Type
		switch r.Kind {
		case ref.TIdent:
			want = token.IDENT
		case ref.TKeyword:
			want = keywordType[r.Text]
		case ref.TInt:
			want = token.INT
		case ref.TFloat:
			want = token.FLOAT
		case ref.TString:
			want = token.STRING
		case ref.TTemplate:
			want = token.RAW_STRING
		case ref.TPunct:
			want = punctType[r.Text]
		}
		if t.Type != want {
			return true, "type", fmt.Sprintf("token %d %v: reference kind %v %q", i, t, r.Kind, r.Text)
		}
		if r.Kind != ref.TString && r.Kind != ref.TTemplate && t.Literal != r.Text {
			return true, "literal", fmt.Sprintf("token %d %v: reference text %q", i, t, r.Text)
		}
		if eo := posOff(src, t.End); eo != r.End-1 && eo != r.End {
			return true, "end", fmt.Sprintf("token %d %v ends at offset %d, reference last byte %d", i, t, eo, r.End-1)
		}
		if !r.CRonly && t.AfterNewline != r.NL {
			return true, "after-newline", fmt.Sprintf("token %d %v: reference NL=%v", i, t, r.NL)
		}
	}
	return true, "", ""
}

type c10Payload struct {
	Src    []byte   `json:"src"`
	Frags  []string `json:"frags,omitempty"`
	Policy int      `json:"policy,omitempty"` // 1.. = the queueing token interceptor of that policy (c10QueueCheck)
	Pow    bool     `json:"pow,omitempty"`    // the consuming '^' interceptor (c10PluginCheck)
	Usage  string   `json:"usage,omitempty"`  // token-interceptor usage pattern (c10UsageCheck)
}

// ---- token interceptors that hand out tokens without consuming input

// c10Policies: what a queueing interceptor does with the token t that next() just returned: how many
// synthesized zero-width tokens it hands out BEFORE t and AFTER t (replayed from a queue on the following
// requests, without calling next() and without touching the cursor). next() is called at most once per
// request (it continues the chain of THIS request; it is not a general "lex one more token").
var c10PolicyNames = []string{"", "one synthesized token after every token", "two synthesized tokens after every identifier x", "a virtual line token before every token that follows a line break", "three synthesized tokens after every token", "one token after every token and a second interceptor that passes through"}

func c10QueueBuilder(policy int, log *[]token.Token) *lexer.Builder {
	lb := lexer.NewBuilder()
	virt := lb.RegisterTokenType("virtual")
	var queue []token.Token
	var last token.Position
	synth := func() token.Token { return token.Token{Type: virt, Literal: "", Start: last, End: last} }
	fetch := func(next func() token.Token) token.Token {
		t := next()
		*log = append(*log, t)
		last = t.End
		return t
	}
	lb.UseTokenInterceptor(func(l *lexer.Lexer, next func() token.Token) token.Token {
		if len(queue) > 0 {
			t := queue[0]
			queue = queue[1:]
			return t
		}
		switch policy {
		case 1, 5:
			t := fetch(next)
			if t.Type != token.EOF {
				queue = append(queue, synth())
			}
			return t
		case 2:
			t := fetch(next)
			if t.Type == token.IDENT && t.Literal == "x" {
				queue = append(queue, synth(), synth())
			}
			return t
		case 3:
			v := synth()
			t := fetch(next)
			if t.AfterNewline && t.Type != token.EOF {
				queue = append(queue, t)
				return v
			}
			return t
		default:
			t := fetch(next)
			if t.Type != token.EOF {
				queue = append(queue, synth(), synth(), synth())
			}
			return t
		}
	})
	if policy == 5 {
		lb.UseTokenInterceptor(func(l *lexer.Lexer, next func() token.Token) token.Token { return next() })
	}
	return lb
}

// c10QueueCheck: the tokens the LIBRARY builds (what next() returned inside the interceptor, in order, up
// to the first end-of-input) are the tokens of the plain lexer on the same source - type, slice, start and
// end; so no byte is skipped or read twice whatever an interceptor hands out in between. (The after-newline
// flag and the comments belong to the REQUEST during which the lexer skipped them; a request answered from
// the queue drops them - the property defines the flag for the plain token stream only, so it is not compared.)
func c10QueueCheck(policy int, src string) (kind, detail string) {
	defer func() {
		if r := recover(); r != nil {
			kind, detail = "panic", fmt.Sprint(r)
		}
	}()
	plain, k, _ := lexAll(lexer.NewBuilder(), src)
	if k != "" {
		return "", "" // the plain lexer's own problem: reported by the span oracle
	}
	var want []token.Token
	for _, t := range plain {
		want = append(want, t)
		if t.Type == token.EOF {
			break
		}
	}
	var log []token.Token
	l := c10QueueBuilder(policy, &log).Build(src)
	limit := 8*len(src) + 16
	done := false
	for i := 0; i < limit; i++ {
		if t := l.NextToken(); t.Type == token.EOF {
			done = true
			break
		}
	}
	if !done {
		return "queue-no-eof", fmt.Sprintf("no end-of-input within %d requests", limit)
	}
	var got []token.Token
	for _, t := range log {
		got = append(got, t)
		if t.Type == token.EOF {
			break
		}
	}
	for i := 0; i < len(want) || i < len(got); i++ {
		if i >= len(got) {
			return "queue-token-lost", fmt.Sprintf("the library built %d tokens, the plain lexer %d; first missing: %s", len(got), len(want), tokString(want[i]))
		}
		if i >= len(want) {
			return "queue-token-extra", fmt.Sprintf("the library built %d tokens, the plain lexer %d; first extra: %s", len(got), len(want), tokString(got[i]))
		}
		span := func(t token.Token) string {
			return fmt.Sprintf("%d:%q@%d:%d-%d:%d", t.Type, t.Literal, t.Start.Line, t.Start.Column, t.End.Line, t.End.Column)
		}
		if g, w := span(got[i]), span(want[i]); g != w {
			return "queue-token-differs", fmt.Sprintf("token %d built by the library under the interceptor: %s; by the plain lexer: %s", i, g, w)
		}
	}
	return "", ""
}

var c10single = map[byte]*core.Violation{}

// c10Fast: a byte of the input that fails on its own is the shrunk case (same result as the general
// shrinker, which tries single elements first).
func c10Fast(lb *lexer.Builder, src []byte) *core.Violation {
	for _, b := range src {
		v, ok := c10single[b]
		if !ok {
			if k, _ := lexCheck(lb, string([]byte{b})); k != "" {
				x := c10Violation(lb, []byte{b}, k)
				v = &x
			}
			c10single[b] = v
		}
		if v != nil {
			return v
		}
	}
	return nil
}

func c10Violation(lb *lexer.Builder, src []byte, kind string) core.Violation {
	// shrink within the byte universe while the same failure kind persists
	idx := map[byte]int{}
	for i, b := range lexAlphabet {
		idx[b] = i
	}
	// any failure kind counts while shrinking: the universe is closed under deletion, so a failure that
	// does not need the deleted bytes is also reported from the smaller input itself
	fails := func(x []byte) bool { k, _ := lexCheck(lb, string(x)); return k != "" }
	sh := core.ShrinkSeq(src, func(b byte) []byte {
		i, ok := idx[b]
		if !ok {
			return []byte{'a'}
		}
		return append([]byte{}, lexAlphabet[:i]...)
	}, fails)
	k, d := lexCheck(lb, string(sh))
	pl, _ := json.Marshal(c10Payload{Src: sh})
	return core.Violation{Kind: k, Case: fmt.Sprintf("%q", sh), Detail: d, Payload: pl, Size: len(sh)}
}

// c10PluginCheck: with the consuming '^' interceptor installed, every token the LIBRARY builds starts where
// the independent scan says, and its after-newline flag is set iff a line feed lies between it and the
// previous token (whoever built that one).
func c10PluginCheck(lb *lexer.Builder, src string) (kind, detail string) {
	return c10PluginCheckF(lb, src, false)
}

// c10PowBuilder: variant 0 = the repository's example (struct-literal token), 1 = the same plugin written with
// the lexer's own constructors.
func c10PowBuilder(variant int) *lexer.Builder {
	lbx := lexer.NewBuilder()
	pow := lbx.RegisterTokenType("pow")
	pow2 := lbx.RegisterTokenType("pow2")
	lbx.UseTokenInterceptor(func(l *lexer.Lexer, next func() token.Token) token.Token {
		if l.CurrentChar != '^' {
			return next()
		}
		if variant == 0 {
			pos := token.Position{Line: l.Line, Column: l.Column}
			l.ReadChar()
			return token.Token{Type: pow, Literal: "^", Start: pos, End: pos}
		}
		if l.PeekChar() == '^' {
			line, col := l.Line, l.Column
			l.ReadChar()
			l.ReadChar()
			return l.NewTokenAt(pow2, "^^", line, col)
		}
		t := l.NewToken(pow, "^")
		l.ReadChar()
		return t
	})
	return lbx
}

// c10PluginCheckF: with libraryBuilt, the plugin builds its tokens through the lexer's own constructors
// (NewToken / NewTokenAt), so slice and after-newline flag are checked for them as well.
func c10PluginCheckF(lb *lexer.Builder, src string, libraryBuilt bool) (kind, detail string) {
	defer func() {
		if r := recover(); r != nil {
			kind, detail = "panic", fmt.Sprint(r)
		}
	}()
	l := lb.Build(src)
	prevEnd := 0
	for i := 0; i < 4*len(src)+8; i++ {
		t := l.NextToken()
		if t.Type == token.EOF {
			return "", ""
		}
		off := ref.OffsetOf(src, t.Start.Line, t.Start.Column)
		if off < prevEnd || off >= len(src) {
			return "plugin-start", fmt.Sprintf("token %d %v: start offset %d (previous token ended at %d)", i, t, off, prevEnd)
		}
		gap := src[prevEnd:off]
		if strings.Trim(gap, " \n") != "" {
			return "plugin-gap", fmt.Sprintf("token %d %v: bytes %q between the tokens were skipped", i, t, gap)
		}
		if t.Literal != "^" || libraryBuilt {
			if off+len(t.Literal) > len(src) || src[off:off+len(t.Literal)] != t.Literal {
				return "plugin-literal", fmt.Sprintf("token %d %v does not match the source at offset %d", i, t, off)
			}
			if want := strings.Contains(gap, "\n"); t.AfterNewline != want {
				return "plugin-after-newline", fmt.Sprintf("token %d %v: AfterNewline=%v but the gap before it is %q", i, t, t.AfterNewline, gap)
			}
		}
		prevEnd = off + len(t.Literal)
	}
	return "plugin-no-eof", "end of input never reported"
}

// Token-interceptor usage patterns (round 12). Two ways plugins legitimately combine their own reading with
// the base lexer's, each with an oracle that needs no second lexeme grammar:
//
//	retag:   t := next(); for one spelling the plugin returns l.NewTokenAt(kw, t.Literal, t.Start.Line,
//	         t.Start.Column) instead of t. The stream must equal the plain lexer's except for that Type
//	         (literal, start, end, after-newline flag).
//	skipper: the plugin consumes text itself with ReadChar (block comments /*...*/ plus the blanks behind
//	         them, and a one-byte sigil @) and then calls next() in the same invocation. The stream must
//	         equal the plain lexer's on the same source with the consumed bytes replaced by blanks: what a
//	         plugin consumes is a gap, and the tokens behind it start where they start.
func c10UsageBuilder(pattern string) *lexer.Builder {
	lbx := lexer.NewBuilder()
	kw := lbx.RegisterTokenType("kw_b")
	switch pattern {
	case "retag":
		lbx.UseTokenInterceptor(func(l *lexer.Lexer, next func() token.Token) token.Token {
			t := next()
			if t.Type == token.IDENT && t.Literal == "b" {
				return l.NewTokenAt(kw, t.Literal, t.Start.Line, t.Start.Column)
			}
			return t
		})
	case "skipper":
		lbx.UseTokenInterceptor(func(l *lexer.Lexer, next func() token.Token) token.Token {
			for {
				if l.CurrentChar == '/' && l.PeekChar() == '*' {
					l.ReadChar()
					l.ReadChar()
					for !(l.CurrentChar == '*' && l.PeekChar() == '/') && !(l.CurrentChar == 0 && l.PeekChar() == 0) {
						l.ReadChar()
					}
					l.ReadChar()
					l.ReadChar()
				} else if l.CurrentChar == '@' {
					l.ReadChar()
				} else {
					break
				}
				for l.CurrentChar == ' ' || l.CurrentChar == '\t' {
					l.ReadChar()
				}
			}
			return next()
		})
	}
	return lbx
}

// c10Blanked replaces what the skipper consumes (closed block comments, @) by blanks.
func c10Blanked(src string) (string, bool) {
	b := []byte(src)
	for i := 0; i < len(b); i++ {
		switch {
		case b[i] == '@':
			b[i] = ' '
		case b[i] == '/' && i+1 < len(b) && b[i+1] == '*':
			j := strings.Index(src[i+2:], "*/")
			if j < 0 {
				return "", false
			}
			for k := i; k < i+2+j+2; k++ {
				b[k] = ' '
			}
			i += 2 + j + 1
		}
	}
	return string(b), true
}

func c10UsageCheck(pattern, src string) (kind, detail string) {
	plainSrc := src
	if pattern == "skipper" {
		var ok bool
		if plainSrc, ok = c10Blanked(src); !ok {
			return "", ""
		}
	}
	want, k, _ := lexAll(lexer.NewBuilder(), plainSrc)
	if k != "" {
		return "", "" // the plain lexer's own totality is the main family's subject
	}
	got, k, d := lexAll(c10UsageBuilder(pattern), src)
	if k != "" {
		return "usage-" + k, d
	}
	if len(got) != len(want) {
		return "usage-token-count", fmt.Sprintf("%d tokens with the %s plugin, the plain lexer gives %d on %q", len(got), pattern, len(want), plainSrc)
	}
	for i := range got {
		g, w := got[i], want[i]
		sameType := g.Type == w.Type || (pattern == "retag" && w.Type == token.IDENT && w.Literal == "b")
		if !sameType || g.Literal != w.Literal || g.Start != w.Start || g.End != w.End || g.AfterNewline != w.AfterNewline {
			return "usage-token-differs", fmt.Sprintf("token %d with the %s plugin: %s; the plain lexer on %q: %s", i, pattern, tokString(g), plainSrc, tokString(w))
		}
	}
	return "", ""
}

func c10Run(c *core.Ctx) {
	processWarmup(c)
	lb := lexer.NewBuilder()
	n := 5
	if c.Thorough() {
		n = 6
	}
	A := lexAlphabet
	// (1) all byte strings of length 0..n; sharded on the leading two bytes
	buf := make([]byte, 0, n)
	var rec func(d, max int)
	cnt := int64(0)
	rec = func(d, max int) {
		if d == max {
			cnt++
			if c.Tick() {
				return
			}
			s := string(buf)
			c.Cur(s)
			c.Inc("inputs")
			k, _ := lexCheck(lb, s)
			if k != "" {
				if v := c10Fast(lb, buf); v != nil {
					c.Violate(*v) // a byte that fails on its own: no shrinking needed, no ration used
				} else if c.ShrinkOK(k) {
					c.Violate(c10Violation(lb, append([]byte{}, buf...), k))
				}
			}
			if cnt%300007 == 0 {
				c.Sample(fmt.Sprintf("%q", s))
			}
			return
		}
		for _, b := range A {
			buf = append(buf, b)
			rec(d+1, max)
			buf = buf[:len(buf)-1]
		}
	}
	for L := 0; L <= n; L++ {
		if L < 2 {
			if c.Shard == 0 {
				rec(0, L)
			}
			continue
		}
		for i, b0 := range A {
			for j, b1 := range A {
				if !c.Mine(int64(i*len(A) + j)) {
					continue
				}
				buf = append(buf[:0], b0, b1)
				rec(2, L)
				buf = buf[:0]
			}
		}
		if !c.Expired() {
			c.SetMax("byte_length_completed", int64(L))
		}
	}
	c.Count("nontrivial_inputs", cnt) // every byte string is distinct; see rule for non-triviality

	// (1b) multi-byte chunks that the one-byte-per-branch alphabet cannot spell (byte order mark, UTF-8
	// sequences, long or truncated escapes), each at the start, in the middle and at the end of every short
	// byte string over the alphabet
	chunks := []string{"\xEF\xBB\xBF", "\xEF\xBB", "\xC3\xA9", "\xE2\x80\xA8", "\xF0\x9F\x98\x80", "\"\\u{0000041}\"", "\"\\u{1234567", "'\\u{", "\"\\x4", "'\\u00", "\"\\u{110000}\"",
		"#!", "/*", "/**/", "/* c */", "*/", "/*\n*/", "\\\n", "0x", "0b2", "1e+", "1.e5", "..", "`\\`", "`\\\\`", "'\\", "\"\\\n\"", "//\r\n", "\xFF", "\x80"}
	short := [][]byte{{}}
	for _, b := range A {
		short = append(short, []byte{b})
	}
	for _, ch := range chunks {
		for _, x := range short {
			for _, y := range short {
				for _, z := range [][]byte{{}, {'a'}, {'\n'}} {
					if !c.Next() || c.Tick() {
						continue
					}
					in := string(x) + ch + string(y) + string(z)
					c.Cur(in)
					c.Inc("inputs")
					c.Inc("chunk_inputs")
					if k, d := lexCheck(lb, in); k != "" && c.ShrinkOK("chunk"+k) {
						pl, _ := json.Marshal(c10Payload{Src: []byte(in)})
						c.Violate(core.Violation{Kind: k, Config: "chunk", Case: fmt.Sprintf("%q", in), Detail: d, Payload: pl, Size: len(in)})
					}
				}
			}
		}
	}

	// (1c) scale family: long inputs (long tokens, many lines, long lines)
	for i, sp := range gen.Scale(c.Thorough()) {
		if !c.Mine(int64(i)) || c.Tick() {
			continue
		}
		c.Cur(sp.Name)
		c.Inc("inputs")
		c.Inc("scale_inputs")
		if k, d := lexCheck(lb, sp.Src); k != "" && c.ShrinkOK("scale"+k) {
			pl, _ := json.Marshal(c10Payload{Src: []byte(sp.Src)})
			c.Violate(core.Violation{Kind: k, Config: "scale", Case: sp.Name, Detail: core.Short(d, 600), Payload: pl, Size: 1000 + len(sp.Src)})
		}
	}

	// (1d) string literals made of every PAIR of escape / text fragments (both quote styles), followed by
	// another token: the literal must end at its own closing quote (compared with the independent tokenizer)
	{
		fr := c07Fragments(1000)
		for i, f1 := range fr {
			for j, f2 := range fr {
				if !c.Mine(int64(i*len(fr)+j)) || c.Tick() {
					continue
				}
				for _, q := range []string{"'", "\""} {
					lit := q + f1 + f2 + q
					src := lit + " z"
					c.Cur(src)
					ok, k, d := fragCheck(lb, src, []string{lit, "z"})
					if !ok {
						c.Inc("fragment_texts_outside_domain")
						continue
					}
					c.Inc("inputs")
					c.Inc("escape_pair_strings")
					if k != "" && c.ShrinkOK("pair"+k) {
						pl, _ := json.Marshal(c10Payload{Src: []byte(src), Frags: []string{lit, "z"}})
						c.Violate(core.Violation{Kind: "frag-" + k, Config: "escape-pair", Case: fmt.Sprintf("%q", src), Detail: d, Payload: pl, Size: len(src)})
					}
				}
			}
		}
		// every code point of U+2000..U+203F and one per UTF-8 length inside a comment, a string and a template
		var cps []rune
		for r := rune(0x2000); r <= 0x203F; r++ {
			cps = append(cps, r)
		}
		cps = append(cps, 0x80, 0xA0, 0xE9, 0x7FF, 0x800, 0xFEFF, 0xFFFD, 0xFFFF, 0x10000, 0x1F600, 0x10FFFF)
		for i, r := range cps {
			if !c.Mine(int64(i)) {
				continue
			}
			for _, src := range []string{"a // x" + string(r) + "y\nb", "'x" + string(r) + "y' b", "`x" + string(r) + "\n" + string(r) + "` b", "a" + string(r) + "b", string(r) + "a"} {
				c.Cur(src)
				c.Inc("inputs")
				c.Inc("code_point_inputs")
				if k, d := lexCheck(lb, src); k != "" && c.ShrinkOK("cp"+k) {
					pl, _ := json.Marshal(c10Payload{Src: []byte(src)})
					c.Violate(core.Violation{Kind: k, Config: "code-point", Case: fmt.Sprintf("%q", src), Detail: d, Payload: pl, Size: len(src)})
				}
			}
			// well-formed ones also against the independent tokenizer (LS/PS are line terminators in JavaScript
			// comments; the subset's lexer is LF-based: left out of this comparison)
			if r != 0x2028 && r != 0x2029 {
				src := "a // x" + string(r) + "y\nb"
				if ok, k, d := fragCheck(lb, src, []string{"a", "b"}); ok && k != "" {
					pl, _ := json.Marshal(c10Payload{Src: []byte(src), Frags: []string{"a", "b"}})
					c.Violate(core.Violation{Kind: "frag-" + k, Config: "code-point", Case: fmt.Sprintf("%q", src), Detail: d, Payload: pl, Size: len(src)})
				}
			}
		}
	}

	// (1e) the repository's example plugin: a token interceptor that consumes '^' itself and returns a token
	// built as a struct literal. Tokens built by the library around it keep exact positions and after-newline
	// flags: all byte strings <= 5 over {a ^ LF SP + (}
	{
		lbx := c10PowBuilder(0)
		alpha := []byte{'a', '^', '\n', ' ', '+', '('}
		for L := 1; L <= 5; L++ {
			gen.EachSeq(len(alpha), L, func(idx []int) bool {
				if !c.Next() || c.Tick() {
					return true
				}
				b := make([]byte, L)
				for i, x := range idx {
					b[i] = alpha[x]
				}
				src := string(b)
				c.Cur(src)
				c.Inc("inputs")
				c.Inc("plugin_token_inputs")
				if k, d := c10PluginCheck(lbx, src); k != "" && c.ShrinkOK("plug"+k) {
					pl, _ := json.Marshal(c10Payload{Src: []byte(src), Pow: true})
					c.Violate(core.Violation{Kind: k, Config: "plugin-token", Case: fmt.Sprintf("%q", src), Detail: d, Payload: pl, Size: L})
				}
				return true
			})
		}
	}

	// (1e') the same kind of plugin written with the lexer's own token constructors: '^' through NewToken before
	// ReadChar (as the base lexer does for one-character tokens), '^^' through NewTokenAt after reading both
	{
		lbx := c10PowBuilder(1)
		alpha := []byte{'a', '^', '\n', ' ', '+', '(', '/'}
		for L := 1; L <= 5; L++ {
			gen.EachSeq(len(alpha), L, func(idx []int) bool {
				if !c.Next() || c.Tick() {
					return true
				}
				b := make([]byte, L)
				for i, x := range idx {
					b[i] = alpha[x]
				}
				src := string(b)
				if strings.Contains(src, "//") {
					return true // the gap model of this oracle knows blanks and line feeds only
				}
				c.Cur(src)
				c.Inc("inputs")
				c.Inc("plugin_token_inputs")
				if k, d := c10PluginCheckF(lbx, src, true); k != "" && c.ShrinkOK("plugc"+k) {
					pl, _ := json.Marshal(c10Payload{Src: []byte(src), Pow: true, Policy: -1})
					c.Violate(core.Violation{Kind: k, Config: "plugin-token built with NewToken/NewTokenAt", Case: fmt.Sprintf("%q", src), Detail: d, Payload: pl, Size: L})
				}
				return true
			})
		}
	}

	// (1f) usage patterns: retag after next() through NewTokenAt; consume with ReadChar, then next()
	{
		run := func(pattern, src string, size int) {
			c.Cur(src)
			c.Inc("inputs")
			c.Inc("usage_pattern_inputs")
			if k, d := c10UsageCheck(pattern, src); k != "" && c.ShrinkOK("usage"+pattern+k) {
				pl, _ := json.Marshal(c10Payload{Src: []byte(src), Usage: pattern})
				c.Violate(core.Violation{Kind: k, Config: "token interceptor: " + pattern, Case: fmt.Sprintf("%q", src), Detail: d, Payload: pl, Size: size})
			}
		}
		alpha := []byte{'a', 'b', '\n', ' ', '+', '(', '/', '='}
		for L := 1; L <= 5; L++ {
			gen.EachSeq(len(alpha), L, func(idx []int) bool {
				if !c.Next() || c.Tick() {
					return true
				}
				b := make([]byte, L)
				for i, x := range idx {
					b[i] = alpha[x]
				}
				run("retag", string(b), L)
				return true
			})
		}
		// skipper: every sequence <= 3 (4 thorough) over tokens of every first-byte class, each gap one of
		// {blank, block comment, sigil, line feed + block comment, block comment + line feed}
		lex := []string{"a", "1", "==", "<=", "+=", "++", "&&", "(", "'s'", "`t`", "+", ";", "!="}
		gaps := []string{" ", " /* c */ ", " @", "\n/* c */ ", " /**/", " /* a */ /* b */ "}
		n := 3
		if c.Thorough() {
			n = 4
		}
		for L := 1; L <= n; L++ {
			gen.EachSeq(len(lex), L, func(idx []int) bool {
				if !c.Next() || c.Tick() {
					return true
				}
				gen.EachSeq(len(gaps), L, func(g []int) bool {
					var sb strings.Builder
					for i, x := range idx {
						if i > 0 || g[0] != 0 {
							sb.WriteString(gaps[g[i]])
						}
						sb.WriteString(lex[x])
					}
					run("skipper", sb.String(), L)
					return true
				})
				return true
			})
		}
	}

	// (1g) queueing token interceptors (tokens handed out without consuming input; look-ahead): all byte
	// strings <= 5 over {a x ; LF SP ( " /} and all sequences <= 3 of the token alphabet in three joinings
	{
		alpha := []byte{'a', 'x', ';', '\n', ' ', '(', '"', '/'}
		run := func(src string, size int) {
			c.Cur(src)
			for policy := 1; policy <= 5; policy++ {
				c.Inc("inputs")
				c.Inc("queueing_interceptor_inputs")
				if k, d := c10QueueCheck(policy, src); k != "" && c.ShrinkOK("queue"+k+fmt.Sprint(policy)) {
					pl, _ := json.Marshal(c10Payload{Src: []byte(src), Policy: policy})
					c.Violate(core.Violation{Kind: k, Config: "interceptor: " + c10PolicyNames[policy], Case: fmt.Sprintf("%q", src), Detail: d, Payload: pl, Size: size})
				}
			}
		}
		for L := 1; L <= 5; L++ {
			gen.EachSeq(len(alpha), L, func(idx []int) bool {
				if !c.Next() || c.Tick() {
					return true
				}
				b := make([]byte, L)
				for i, x := range idx {
					b[i] = alpha[x]
				}
				run(string(b), L)
				return true
			})
		}
		for L := 1; L <= 3; L++ {
			gen.EachSeq(len(gen.T), L, func(idx []int) bool {
				if !c.Next() || c.Tick() {
					return true
				}
				for _, sep := range []string{" ", "\n", ""} {
					run(gen.Join(gen.T, idx, sep), 10+L)
				}
				return true
			})
		}
	}

	// (1f) identifier spellings: each alone and between other tokens, against the independent tokenizer
	for ii, name := range gen.Identifiers() {
		if !c.Mine(int64(ii)) || c.Tick() {
			continue
		}
		for _, fr := range [][]string{{name}, {"let", name, "=", "1"}, {name, "(", name, ")"}, {"a", ".", name}, {name, "+", name}} {
			for _, sep := range []string{" ", "\n", ""} {
				src := strings.Join(fr, sep)
				ok, k, d := fragCheck(lb, src, fr)
				if !ok {
					continue
				}
				c.Inc("inputs")
				c.Inc("identifier_inputs")
				if k != "" && c.ShrinkOK("id"+k) {
					pl, _ := json.Marshal(c10Payload{Src: []byte(src), Frags: fr})
					c.Violate(core.Violation{Kind: "frag-" + k, Config: "identifier", Case: fmt.Sprintf("%q", src), Detail: d, Payload: pl, Size: len(src)})
				}
			}
		}
	}

	// (2) fragment sequences x separators vs R-tok
	F := c10Fragments
	maxLen, seps := 3, c10Seps
	var fr []string
	var sb strings.Builder
	var recF func(d, L int)
	sepIdx := make([]int, 8)
	var recS func(g, L int)
	recS = func(g, L int) {
		if g == L-1 {
			if !c.Next() {
				return
			}
			sb.Reset()
			for i, f := range fr {
				if i > 0 {
					sb.WriteString(seps[sepIdx[i-1]])
				}
				sb.WriteString(f)
			}
			s := sb.String()
			c.Cur(s)
			ok, k, d := fragCheck(lb, s, fr)
			if !ok {
				c.Inc("fragment_texts_outside_domain")
				return
			}
			c.Inc("fragment_texts")
			c.Inc("inputs")
			if k != "" {
				pl, _ := json.Marshal(c10Payload{Src: []byte(s), Frags: append([]string{}, fr...)})
				c.Violate(core.Violation{Kind: "frag-" + k, Case: fmt.Sprintf("%q", s), Detail: d, Payload: pl})
			}
			if c.Count0()%500009 == 0 {
				c.Sample(fmt.Sprintf("%q", s))
			}
			return
		}
		for i := range seps {
			sepIdx[g] = i
			recS(g+1, L)
		}
	}
	recF = func(d, L int) {
		if c.Saturated() {
			return
		}
		if d == L {
			if c.Tick() {
				return
			}
			recS(0, L)
			return
		}
		for _, f := range F {
			fr = append(fr, f)
			recF(d+1, L)
			fr = fr[:len(fr)-1]
		}
	}
	for L := 1; L <= maxLen; L++ {
		recF(0, L)
	}
	if c.Thorough() {
		seps = []string{" ", "", "\n"}
		// length 4 with uniform separators
		var rec4 func(d int)
		rec4 = func(d int) {
			if c.Saturated() {
				return
			}
			if d == 4 {
				for si := range seps {
					if !c.Next() {
						continue
					}
					s := strings.Join(fr, seps[si])
					c.Cur(s)
					ok, k, dd := fragCheck(lb, s, fr)
					if !ok {
						c.Inc("fragment_texts_outside_domain")
						continue
					}
					c.Inc("fragment_texts")
					c.Inc("inputs")
					if k != "" {
						pl, _ := json.Marshal(c10Payload{Src: []byte(s), Frags: append([]string{}, fr...)})
						c.Violate(core.Violation{Kind: "frag-" + k, Case: fmt.Sprintf("%q", s), Detail: dd, Payload: pl})
					}
				}
				return
			}
			if d == 2 && c.Expired() {
				return
			}
			for _, f := range F {
				fr = append(fr, f)
				rec4(d + 1)
				fr = fr[:len(fr)-1]
			}
		}
		rec4(0)
	}
}

func c10Replay(pl json.RawMessage) (string, []core.Violation) {
	var p c10Payload
	json.Unmarshal(pl, &p)
	lb := lexer.NewBuilder()
	src := string(p.Src)
	toks, _, _ := lexAll(lb, src)
	out := fmt.Sprintf("source %q\n", src)
	for i, t := range toks {
		out += fmt.Sprintf("  %d: %v nl=%v\n", i, t, t.AfterNewline)
	}
	if p.Usage != "" {
		if k, d := c10UsageCheck(p.Usage, src); k != "" {
			return out + "token interceptor: " + p.Usage, []core.Violation{{Kind: k, Case: fmt.Sprintf("%q", src), Detail: d}}
		}
		return out, nil
	}
	if p.Pow {
		variant := 0
		if p.Policy == -1 {
			variant = 1
		}
		if k, d := c10PluginCheckF(c10PowBuilder(variant), src, variant == 1); k != "" {
			return out + "consuming '^' token interceptor", []core.Violation{{Kind: k, Case: fmt.Sprintf("%q", src), Detail: d}}
		}
		return out, nil
	}
	if p.Policy > 0 {
		if k, d := c10QueueCheck(p.Policy, src); k != "" {
			return out + "interceptor: " + c10PolicyNames[p.Policy], []core.Violation{{Kind: k, Case: fmt.Sprintf("%q", src), Detail: d}}
		}
		return out, nil
	}
	if p.Frags != nil {
		if ok, k, d := fragCheck(lb, src, p.Frags); ok && k != "" {
			return out, []core.Violation{{Kind: "frag-" + k, Case: fmt.Sprintf("%q", src), Detail: d}}
		}
		return out, nil
	}
	if k, d := lexCheck(lb, src); k != "" {
		return out, []core.Violation{{Kind: k, Case: fmt.Sprintf("%q", src), Detail: d}}
	}
	return out, nil
}

func init() {
	core.Register(&core.PropSpec{
		ID: "C10", Level: "exploration",
		Rule:     "ALL byte strings of length 0..n (n=5 quick, 6 thorough) over the 26-byte alphabet {a 1 0 x e . + - = ! < & | / \" ' ` \\ SP LF CR TAB ( { 0xC3 NUL} (one byte per lexer branch), each tokenised until end-of-input was returned 3 times, checked by a span-consistency oracle (positions inside the source, literal = source slice, gaps only white space/comments, no overlap, keyword classification, operator/identifier maximal munch, after-newline <=> LF in gap, stable end-of-input at len(src)); plus all sequences of <=3 (thorough: 4) of 63 well-formed lexeme fragments x all separator combinations compared token-by-token with an independent tokenizer. Every enumerated input is distinct; all are counted as non-trivial because each exercises the cursor/position bookkeeping (the empty input included once) Added families: 26 multi-byte chunks (byte order mark, UTF-8 sequences, long and truncated escapes) at the start / middle / end of every byte string of length <= 2; string literals made of every pair of the 61 literal fragments (both quotes) followed by a token, compared with the independent tokenizer; every code point of U+2000..U+203F and one per UTF-8 length in comments, strings, templates and identifiers; the scale family; identifier spellings (keyword prefixes/suffixes/infixes, _ and $ forms, lengths 2..40); queueing token interceptors (5 policies: 1, 2 or 3 synthesized zero-width tokens after/before library tokens, replayed from a queue without consuming input, also under a stacked pass-through interceptor) on all byte strings <= 5 over 8 bytes and all token sequences <= 3 in 3 joinings: the tokens the library builds equal the plain lexer's. Usage patterns of token interceptors (round 12): retag - next() and then NewTokenAt for one spelling: the stream equals the plain lexer's except for that type, all byte strings <= 5 over 8 bytes; skipper - the interceptor consumes block comments and a sigil itself with ReadChar and then calls next(): the stream equals the plain lexer's on the source with the consumed bytes blanked, all sequences <= 3 (4) over 13 lexemes x 6 gap kinds per gap.",
		Assume:   []string{"line model: LF ends a line; a lone CR in a gap is don't-care for the after-newline flag (property does not define it)", "columns are byte columns", "position base calibrated on the token of the input \"a\""},
		QuickSec: 300, ThorSec: 1800, Run: c10Run, Replay: c10Replay,
		Evals: "inputs", Nontriv: "nontrivial_inputs",
	})
}

func lexAlphaN() int {
	if os.Getenv("XMC_NONUL") == "1" {
		return 25
	}
	return 26
}
