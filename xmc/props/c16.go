package props

import (
	"encoding/json"
	"fmt"
	"strings"

	"github.com/xjslang/xjs/ast"
	"github.com/xjslang/xjs/lexer"
	"github.com/xjslang/xjs/parser"
	"github.com/xjslang/xjs/token"

	"xmc/core"
	"xmc/gen"
	"xmc/ref"
)

// C16: parsing-context queries reflect the real nesting. Reference model R-nest: the nesting path of
// every token, recorded by the harness unparser when it emits the token.

type c16Payload struct {
	Clause string   `json:"clause"` // "nest" | "final"
	Src    string   `json:"src"`
	Paths  []string `json:"paths,omitempty"` // nesting path per token offset: "off:path"
	Mode   int      `json:"mode"`
}

type c16Rec struct {
	kind byte // 's' | 'e'
	off  int
	inFn bool
	ctx  parser.ContextType
	lit  string
	// the question was not asked at this invocation (query schedules)
	noFn, noCtx bool
}

func c16Builder(m Mode, src string, recs *[]c16Rec) *parser.Builder {
	return c16BuilderSub(m, src, recs, false)
}

// c16BuilderSub: with sub, the statement interceptor first builds a SECOND parser from the same builder and
// parses a nested snippet to the end (a plugin that sub-parses embedded code): two parsers of one builder
// are alive at once, and the answers of the outer one must not be affected.
func c16BuilderSub(m Mode, src string, recs *[]c16Rec, sub bool) *parser.Builder {
	pb := newPB(m)
	inSub := false
	useS, useE := pb.UseStatementInterceptor, pb.UseExpressionInterceptor
	switch c16Install {
	case 1: // only the expression interceptor exists on this builder
		useS = func(parser.Interceptor[ast.Statement]) *parser.Builder { return pb }
	case 2: // only the statement interceptor exists
		useE = func(parser.Interceptor[ast.Expression]) *parser.Builder { return pb }
	case 3: // both, each between two pass-through interceptors of its kind, installed through a plugin
		useS = func(i parser.Interceptor[ast.Statement]) *parser.Builder {
			return pb.Install(func(b *parser.Builder) {
				b.UseStatementInterceptor(func(p *parser.Parser, next func() ast.Statement) ast.Statement { return next() })
				b.UseStatementInterceptor(i)
				b.UseStatementInterceptor(func(p *parser.Parser, next func() ast.Statement) ast.Statement { return next() })
			})
		}
		useE = func(i parser.Interceptor[ast.Expression]) *parser.Builder {
			return pb.Install(func(b *parser.Builder) {
				b.UseExpressionInterceptor(func(p *parser.Parser, next func() ast.Expression) ast.Expression { return next() })
				b.UseExpressionInterceptor(i)
				b.UseExpressionInterceptor(func(p *parser.Parser, next func() ast.Expression) ast.Expression { return next() })
			})
		}
	}
	useS(func(p *parser.Parser, next func() ast.Statement) ast.Statement {
		if inSub {
			return next()
		}
		if sub {
			inSub = true
			pb.Build("function q ( ) { { z ; } if ( a ) { b ; } }").ParseProgram()
			inSub = false
		}
		if c16PushPop {
			// a plugin construct that is function-like but has no brace body of its own (an expression-bodied
			// arrow, say) enters and leaves a function context around it; balanced, so nothing may remain
			p.PushContext(parser.FunctionContext)
			p.PopContext()
		}
		t := p.CurrentToken
		if ask, fn, cx := c16Ask('s'); ask {
			r := c16Rec{kind: 's', off: ref.OffsetOf(src, t.Start.Line, t.Start.Column), lit: t.Literal, noFn: !fn, noCtx: !cx}
			if fn {
				r.inFn = p.IsInFunction()
			}
			if cx {
				r.ctx = p.CurrentContext()
			}
			*recs = append(*recs, r)
		}
		if c16Direct && t.Type == token.LBRACE {
			return p.ParseBlockStatement()
		}
		if c16Lambda && t.Type == token.IDENT && t.Literal == "LAMBDA" && p.PeekToken.Type == token.LPAREN {
			// a plugin construct with a parameter list and an expression body: LAMBDA ( a , b ) a + b ;
			p.NextToken()
			p.ParseFunctionParameters()
			p.NextToken()
			body := p.ParseExpression()
			if !p.ExpectSemicolonASI() {
				return nil
			}
			return &ast.ExpressionStatement{Expression: body}
		}
		return next()
	})
	useE(func(p *parser.Parser, next func() ast.Expression) ast.Expression {
		if inSub {
			return next()
		}
		if c16PushPop {
			p.PushContext(parser.BlockContext)
			p.PushContext(parser.FunctionContext)
			p.PopContext()
			p.PopContext()
		}
		t := p.CurrentToken
		if ask, fn, cx := c16Ask('e'); ask {
			r := c16Rec{kind: 'e', off: ref.OffsetOf(src, t.Start.Line, t.Start.Column), lit: t.Literal, noFn: !fn, noCtx: !cx}
			if fn {
				r.inFn = p.IsInFunction()
			}
			if cx {
				r.ctx = p.CurrentContext()
			}
			*recs = append(*recs, r)
		}
		return next()
	})
	return pb
}

func ctxName(c parser.ContextType) string {
	switch c {
	case parser.GlobalContext:
		return "global"
	case parser.FunctionContext:
		return "function"
	case parser.BlockContext:
		return "block"
	}
	return fmt.Sprintf("ctx(%d)", int(c))
}

func c16Want(path string) (bool, parser.ContextType) {
	inFn := strings.IndexByte(path, byte(gen.CtxFunc)) >= 0
	if path == "" {
		return inFn, parser.GlobalContext
	}
	if path[len(path)-1] == byte(gen.CtxFunc) {
		return inFn, parser.FunctionContext
	}
	return inFn, parser.BlockContext
}

// c16Nest checks every interceptor invocation of one parse of src against the token paths.
func c16Nest(src string, paths map[int]string, m Mode) (kind, detail string, invocations int, stacks []string) {
	kind, detail, _, invocations, stacks = c16NestC(src, paths, m)
	return
}

// c16NestC also returns the violation class (interceptor kind + nesting path of the token).
// c16DirectBlocks: a statement interceptor that, on a "{" token, calls the public ParseBlockStatement itself
// instead of next() (plugins that handle blocks do this); the context answers inside must be the same.
var c16Direct bool

// c16Subst: one lexeme per syntactic class, substituted for each token of each nested program.
var c16Subst = []string{"a", "1", "(", ")", "{", "}", "[", "]", ";", ",", "=", "+", "++", ".", ":", "let", "function", "if", "else", "return", "while", "for"}

// c16Sched: which interceptor invocations actually ask (an answer must not depend on which questions were
// asked before). 0 = every invocation of both interceptors (default); 1 = expression interceptor only; 2 =
// statement interceptor only; 3 = IsInFunction only / 4 = CurrentContext only (the other is not called);
// 5, 6 = every second invocation (even / odd); 7 = every third.
var c16Sched int
var c16SchedN int

var c16SchedNames = []string{"", "only the expression interceptor asks", "only the statement interceptor asks", "only IsInFunction is called", "only CurrentContext is called", "every second invocation asks (even)", "every second invocation asks (odd)", "every third invocation asks"}

// c16Ask reports whether this invocation asks, and which of the two questions.
func c16Ask(kind byte) (ask, fn, ctx bool) {
	c16SchedN++
	switch c16Sched {
	case 1:
		return kind == 'e', true, true
	case 2:
		return kind == 's', true, true
	case 3:
		return true, true, false
	case 4:
		return true, false, true
	case 5:
		return c16SchedN%2 == 0, true, true
	case 6:
		return c16SchedN%2 == 1, true, true
	case 7:
		return c16SchedN%3 == 0, true, true
	}
	return true, true, true
}

// c16Install: which interceptors the builder carries at all (the property speaks of "a statement or expression
// interceptor", not of both being present): 0 = both; 1 = the expression interceptor alone; 2 = the statement
// interceptor alone; 3 = both, each between two pass-through interceptors of its kind, installed through Install.
var c16Install int

var c16InstallNames = []string{"", "only an expression interceptor is installed", "only a statement interceptor is installed", "the asking interceptors sit between pass-through interceptors installed through a plugin"}

// c16Lambda: the statement interceptor parses a construct of its own that has a parameter list (read with the
// public ParseFunctionParameters) and an expression body; the program under test follows it.
var c16Lambda bool

const c16LambdaPrefix = "LAMBDA ( a , b ) a + b ;\n"

// c16PushPop: the interceptors use the public PushContext / PopContext themselves, balanced, before asking.
var c16PushPop bool

func c16NestC(src string, paths map[int]string, m Mode) (kind, detail, class string, invocations int, stacks []string) {
	kind, detail, class, invocations, stacks = c16NestSub(src, paths, m, false)
	if kind == "" {
		c16Direct = true
		k2, d2, c2, _, _ := c16NestSub(src, paths, m, false)
		c16Direct = false
		if k2 != "" {
			return "direct-block-" + k2, "with a statement interceptor that calls ParseBlockStatement itself on '{': " + d2, c2, invocations, stacks
		}
	}
	for sched := 1; kind == "" && sched < len(c16SchedNames); sched++ {
		c16Sched, c16SchedN = sched, 0
		k2, d2, c2, _, _ := c16NestSub(src, paths, m, false)
		c16Sched = 0
		if k2 != "" {
			return "query-history-" + k2, "when " + c16SchedNames[sched] + ": " + d2, c2, invocations, stacks
		}
	}
	for inst := 1; kind == "" && inst < len(c16InstallNames); inst++ {
		c16Install = inst
		k2, d2, c2, _, _ := c16NestSub(src, paths, m, false)
		c16Install = 0
		if k2 != "" {
			return "installation-" + k2, "when " + c16InstallNames[inst] + ": " + d2, c2, invocations, stacks
		}
	}
	if kind == "" {
		c16PushPop = true
		k2, d2, c2, _, _ := c16NestSub(src, paths, m, false)
		c16PushPop = false
		if k2 != "" {
			return "plugin-context-" + k2, "with interceptors that push and pop a function context themselves (balanced) before asking: " + d2, c2, invocations, stacks
		}
	}
	if kind == "" {
		src2 := c16LambdaPrefix + src
		paths2 := make(map[int]string, len(paths)+8)
		for off, pth := range paths {
			paths2[off+len(c16LambdaPrefix)] = pth
		}
		for i := 0; i < len(c16LambdaPrefix); i++ {
			if c16LambdaPrefix[i] != ' ' && c16LambdaPrefix[i] != '\n' && (i == 0 || c16LambdaPrefix[i-1] == ' ') {
				paths2[i] = "" // the tokens of the plugin construct are at top level
			}
		}
		c16Lambda = true
		k2, d2, c2, _, _ := c16NestSub(src2, paths2, m, false)
		c16Lambda = false
		if k2 != "" {
			return "after-plugin-construct-" + k2, "after a plugin statement that reads a parameter list with ParseFunctionParameters and an expression body: " + d2, c2, invocations, stacks
		}
	}
	if kind == "" {
		if k2, d2, c2, _, _ := c16NestSub(src, paths, m, true); k2 != "" {
			return "subparse-" + k2, "with a second parser of the same builder used inside the statement interceptor: " + d2, c2, invocations, stacks
		}
	}
	return
}

func c16NestSub(src string, paths map[int]string, m Mode, sub bool) (kind, detail, class string, invocations int, stacks []string) {
	var recs []c16Rec
	o := parseWith(c16BuilderSub(m, src, &recs, sub), src)
	if o.Panic != "" {
		return "panic", o.Panic, "", 0, nil
	}
	if o.Err != nil {
		return "", "", "", 0, nil // not a valid program in this mode: outside the per-invocation clause
	}
	for _, r := range recs {
		path, ok := paths[r.off]
		if !ok {
			return "unknown-token", fmt.Sprintf("interceptor ran with current token %q at offset %d, which is not the start of a token of the program", r.lit, r.off), string(r.kind), len(recs), nil
		}
		stacks = append(stacks, path)
		wantFn, wantCtx := c16Want(path)
		if !r.noFn && r.inFn != wantFn {
			return "is-in-function", fmt.Sprintf("%c-interceptor at token %q (offset %d, nesting path %q): IsInFunction()=%v, want %v", r.kind, r.lit, r.off, path, r.inFn, wantFn), string(r.kind) + ":" + path, len(recs), stacks
		}
		if !r.noCtx && r.ctx != wantCtx {
			return "current-context", fmt.Sprintf("%c-interceptor at token %q (offset %d, nesting path %q): CurrentContext()=%s, want %s", r.kind, r.lit, r.off, path, ctxName(r.ctx), ctxName(wantCtx)), string(r.kind) + ":" + path, len(recs), stacks
		}
	}
	if k, d := c16FinalOf(o); k != "" {
		return k, d, "", len(recs), stacks
	}
	return "", "", "", len(recs), stacks
}

func c16FinalOf(o ParseOut) (string, string) {
	if o.Parser == nil {
		return "", ""
	}
	if c := o.Parser.CurrentContext(); c != parser.GlobalContext {
		return "final-context", fmt.Sprintf("after ParseProgram CurrentContext()=%s, want global", ctxName(c))
	}
	if o.Parser.IsInFunction() {
		return "final-in-function", "after ParseProgram IsInFunction()=true"
	}
	return "", ""
}

// c16Final: after parsing any input the context is back at top level (with and without interceptors).
func c16Final(src string, mi int) (string, string) {
	m := Modes[mi]
	o := parseMode(src, m)
	if o.Panic != "" {
		return "", "" // C11's subject
	}
	if k, d := c16FinalOf(o); k != "" {
		return k, d
	}
	var recs []c16Rec
	o = parseWith(c16Builder(m, src, &recs), src)
	if o.Panic != "" {
		return "", ""
	}
	return c16FinalOf(o)
}

func c16Paths(toks []gen.Tok, offs []int) map[int]string {
	m := map[int]string{}
	for i, t := range toks {
		if offs[i] >= 0 {
			m[offs[i]] = t.Path
		}
	}
	return m
}

func c16PathList(paths map[int]string) []string {
	var out []string
	for o, p := range paths {
		out = append(out, fmt.Sprintf("%d:%s", o, p))
	}
	return out
}

// c16PlugPaths: nesting paths of a blank-separated plugin-language program that has no object literals: every "{" is
// the body of the function whose header precedes it, or a block (plain, of if / else / while / UNLESS, of LOOP).
// A token's path is the stack before the token; "{" pushes after itself, "}" pops before itself.
func c16PlugPaths(src string) map[int]string {
	paths := map[int]string{}
	var stack []byte
	pendingFn := false
	i := 0
	for i < len(src) {
		if src[i] == ' ' || src[i] == '\n' {
			i++
			continue
		}
		j := i
		for j < len(src) && src[j] != ' ' && src[j] != '\n' {
			j++
		}
		tok := src[i:j]
		if tok == "}" && len(stack) > 0 {
			stack = stack[:len(stack)-1]
		}
		paths[i] = string(stack)
		switch tok {
		case "function":
			pendingFn = true
		case "{":
			if pendingFn {
				stack = append(stack, byte(gen.CtxFunc))
				pendingFn = false
			} else {
				stack = append(stack, byte(gen.CtxBlock))
			}
		}
		i = j
	}
	return paths
}

func c16Run(c *core.Ctx) {
	processWarmup(c)
	report := func(clause, k, d, src string, paths map[int]string, mi int, size int, class string) {
		if k == "" || !c.ShrinkOK(clause+k) {
			return
		}
		pl, _ := json.Marshal(c16Payload{Clause: clause, Src: src, Paths: c16PathList(paths), Mode: mi})
		v := core.Violation{Kind: k, Config: Modes[mi].String(), Case: fmt.Sprintf("%q", src), Detail: d, Payload: pl, Size: size}
		if class != "" {
			// signature: failure kind + interceptor kind + nesting path of the token, not the whole
			// program (one defect, one line); the smallest program of the class is kept by size order
			v.Sig = k + "|" + class
		}
		c.Violate(v)
	}
	// the plugin language: the statements a plugin parses itself (LOOP block through ParseBlockStatement, UNLESS
	// body through ParseStatement) nest like the built-in ones; all query variants of c16NestC apply
	{
		pbPlugLang = true
		for i, src := range plugLangPrograms(c.Thorough()) {
			if !c.Mine(int64(i)) || c.Tick() || strings.Contains(src, "//") {
				continue
			}
			for _, text := range []string{src, strings.ReplaceAll(src, " ", "\n")} {
				c.Cur(text)
				paths := c16PlugPaths(text)
				for mi, m := range Modes {
					if mi > 0 && mi != 3 {
						continue
					}
					kd, d, class, n, _ := c16NestC(text, paths, m)
					c.Inc("programs_parsed")
					c.Inc("plugin_language_programs")
					c.Count("interceptor_invocations", int64(n))
					if kd != "" {
						report("nestP", "plugin-language-"+kd, d, text, paths, mi, 60, class+"|plugin-language")
					}
				}
			}
		}
		pbPlugLang = false
	}
	// final-state violations are shrunk over the token list
	reportFinal := func(k, d string, words []string, mi int) {
		if k == "" || !c.ShrinkOK("final"+k) {
			return
		}
		fails := func(x []string) bool { kk, _ := c16Final(strings.Join(x, " "), mi); return kk == k }
		sh := core.ShrinkSeq(words, nil, fails)
		src := strings.Join(sh, " ")
		if _, d2 := c16Final(src, mi); d2 != "" {
			d = d2
		}
		report("final", k, d, src, nil, mi, len(sh), "")
	}
	runProg := func(prog []*gen.Node, name string, k int) {
		toks := gen.UnparseProgram(prog, false)
		doText := func(text string, offs []int) {
			c.Cur(text)
			paths := c16Paths(toks, offs)
			for mi, m := range Modes {
				if mi > 0 && !c.Thorough() && mi != 3 {
					continue
				}
				kd, d, class, n, stacks := c16NestC(text, paths, m)
				c.Inc("programs_parsed")
				c.Count("interceptor_invocations", int64(n))
				for _, s := range stacks {
					if c.Distinct("context_stacks", s) {
						c.Inc("states")
					}
				}
				if n > 0 {
					c.Inc("programs_with_invocations")
				}
				report("nest", kd, d, text, paths, mi, len(toks), class)
			}
		}
		text, offs := gen.RenderOffs(toks, nil, nil)
		doText(text, offs)
		// the same program with a line feed in every gap (positions on many lines)
		text, offs = gen.RenderOffs(toks, func(int) string { return "\n" }, nil)
		doText(text, offs)
		// final-state clause on every truncation at a token boundary (unclosed nesting at every depth)
		text, offs = gen.RenderOffs(toks, nil, nil)
		for i := 1; i < len(toks); i++ {
			if offs[i] < 0 {
				continue
			}
			cut := text[:offs[i]]
			c.Cur(cut)
			for mi := range Modes {
				if !c.Thorough() && mi != 0 && mi != 3 {
					continue
				}
				c.Inc("final_state_inputs")
				kd, d := c16Final(cut, mi)
				reportFinal(kd, d, strings.Fields(cut), mi)
			}
		}
		// and with one token deleted
		if k > 0 {
			for i := 0; i < len(toks); i++ {
				rest := append(append([]gen.Tok{}, toks[:i]...), toks[i+1:]...)
				del := gen.Render(rest, nil, nil)
				c.Cur(del)
				for mi := range Modes {
					if !c.Thorough() && mi != 0 && mi != 3 {
						continue
					}
					c.Inc("final_state_inputs")
					kd, d := c16Final(del, mi)
					reportFinal(kd, d, strings.Fields(del), mi)
				}
			}
		}
		// and with one token replaced by each lexeme of a class alphabet (an early exit taken in the middle of a
		// nesting, with well-formed text after it)
		if k > 0 && len(toks) <= 40 {
			for i := 0; i < len(toks); i++ {
				for _, sub := range c16Subst {
					if sub == toks[i].Text {
						continue
					}
					rest := append([]gen.Tok{}, toks...)
					rest[i].Text = sub
					txt := gen.Render(rest, nil, nil)
					c.Cur(txt)
					for _, mi := range []int{0, 3} {
						c.Inc("final_state_inputs")
						c.Inc("final_state_substitutions")
						kd, d := c16Final(txt, mi)
						reportFinal(kd, d, strings.Fields(txt), mi)
					}
				}
			}
		}
		_ = name
	}
	// (1) nesting chains
	depth := 3
	if c.Thorough() {
		depth = 4
	}
	for d := 1; d <= depth; d++ {
		ns := gen.Nesters(true)
		if d >= 4 {
			ns = gen.Nesters(false)
		}
		gen.NestChains(ns, d, func(prog []*gen.Node, name string) {
			if !c.Next() || c.Tick() {
				return
			}
			c.Inc("nest_chain_programs")
			k := 0
			if d <= 2 || c.Thorough() {
				k = 1
			}
			runProg(prog, name, k)
			if c.Count0()%977 == 0 {
				c.Sample(name)
			}
		})
		if !c.Expired() {
			c.SetMax("nesting_depth_completed", int64(d))
		}
	}
	// (1b) two nested constructs side by side in one list (state left behind by the first must not affect
	// the second): every ordered pair of constructors x leaf bodies, at top level and inside a function body
	{
		ns := gen.Nesters(true)
		leaves := gen.NestLeaves()
		for i, n1 := range ns {
			for j, n2 := range ns {
				for li := range leaves {
					for lj := range leaves {
						if !c.Next() || c.Tick() {
							continue
						}
						mk := func(l []*gen.Node) []*gen.Node {
							out := make([]*gen.Node, len(l))
							for k, x := range l {
								out[k] = gen.Clone(x)
							}
							return out
						}
						pair := []*gen.Node{n1.Wrap(mk(leaves[li])), n2.Wrap(mk(leaves[lj])), gen.Ex(gen.I("v"))}
						c.Inc("sibling_pair_programs")
						runProg(pair, fmt.Sprintf("pair:%s+%s", n1.Name, n2.Name), 0)
						if (i+j+li+lj)%3 == 0 {
							inFn := []*gen.Node{gen.Func("w", nil, n1.Wrap(mk(leaves[li])), n2.Wrap(mk(leaves[lj])), gen.Ex(gen.I("v")))}
							runProg(inFn, "pair-in-function", 0)
						}
					}
				}
			}
		}
	}
	if c.Thorough() {
		gen.NestChains(gen.Nesters(false), 5, func(prog []*gen.Node, name string) {
			if !c.Next() || c.Tick() {
				return
			}
			c.Inc("nest_chain_programs")
			runProg(prog, name, 0)
		})
		if !c.Expired() {
			c.SetMax("nesting_depth_completed", 5)
		}
	}
	// (1c) deep chains: the same constructor (and alternating pairs) nested 5, 9, 17 and 33 deep
	{
		ns := gen.Nesters(true)
		depths := []int{5, 9, 17, 33, 65}
		if c.Thorough() {
			depths = append(depths, 129, 257)
		}
		for _, d := range depths {
			for i := range ns {
				for j := range ns {
					if j != i && j != (i+1)%len(ns) {
						continue
					}
					if !c.Next() || c.Tick() {
						continue
					}
					body := []*gen.Node{gen.Ex(gen.Ca(gen.I("f"), gen.I("b")))}
					for l := 0; l < d; l++ {
						n := ns[i]
						if l%2 == 1 {
							n = ns[j]
						}
						body = []*gen.Node{gen.Ex(gen.I("u")), n.Wrap(body), gen.Ex(gen.Ca(gen.I("v")))}
					}
					c.Inc("deep_chain_programs")
					runProg(body, fmt.Sprintf("deep:%d:%s/%s", d, ns[i].Name, ns[j].Name), 0)
				}
			}
		}
	}
	// (1d) one constructor A around d levels of another constructor B around a leaf (and the reverse: d levels of B with A
	// innermost): the outermost / innermost level is the only one of its kind, so a stack representation that loses or
	// confuses levels beyond a capacity changes an answer even when all the other levels are alike
	{
		ns := gen.Nesters(true)
		depths := []int{8, 16, 32, 64}
		if c.Thorough() {
			depths = append(depths, 128, 256)
		}
		for _, d := range depths {
			for i := range ns {
				for j := range ns {
					if i == j {
						continue
					}
					if !c.Thorough() && !(i < 3 || j < 3) {
						continue // quick tier: one of the two is block / funcdecl / fnarg
					}
					for _, outer := range []bool{true, false} {
						if !c.Next() || c.Tick() {
							continue
						}
						body := []*gen.Node{gen.Ex(gen.Ca(gen.I("f"), gen.I("b")))}
						if !outer {
							body = []*gen.Node{gen.Ex(gen.I("u")), ns[i].Wrap(body), gen.Ex(gen.Ca(gen.I("v")))}
						}
						for l := 0; l < d; l++ {
							body = []*gen.Node{gen.Ex(gen.I("u")), ns[j].Wrap(body), gen.Ex(gen.Ca(gen.I("v")))}
						}
						if outer {
							body = []*gen.Node{gen.Ex(gen.I("u")), ns[i].Wrap(body), gen.Ex(gen.Ca(gen.I("v")))}
						}
						c.Inc("deep_chain_programs")
						runProg(body, fmt.Sprintf("deep1:%d:%s around/inside %s outer=%v", d, ns[i].Name, ns[j].Name, outer), 0)
					}
				}
			}
		}
	}
	// (1e) brace-less chains: every chain of <= 3 (4) brace-less compound statements (while / for / if-then / if-else /
	// then-branch with an else behind it) around an inner statement that asks (an expression statement, a block, a
	// function expression argument, a brace-less return), at top level, in a function body and in a block. A body
	// without braces opens no context, however many loops and conditionals are stacked.
	{
		type bl struct {
			name string
			wrap func(s *gen.Node) *gen.Node
		}
		bls := []bl{
			{"while", func(s *gen.Node) *gen.Node { return gen.While(gen.I("c"), s) }},
			{"for", func(s *gen.Node) *gen.Node {
				return gen.For(gen.LetExpr("i", gen.N("0")), gen.Bi("<", gen.I("i"), gen.N("2")), gen.Po("++", gen.I("i")), s)
			}},
			{"then", func(s *gen.Node) *gen.Node { return gen.If(gen.I("c"), s, nil) }},
			{"else", func(s *gen.Node) *gen.Node { return gen.If(gen.I("c"), gen.Ex(gen.I("t")), s) }},
			{"thenelse", func(s *gen.Node) *gen.Node { return gen.If(gen.I("c"), s, gen.Ex(gen.Ca(gen.I("f"), gen.I("a")))) }},
		}
		fn := func(b ...*gen.Node) *gen.Node { return gen.F("", nil, b...) }
		inner := []func() *gen.Node{
			func() *gen.Node { return gen.Ex(gen.Bi("+", gen.I("a"), gen.Ca(gen.I("f"), gen.I("b")))) },
			func() *gen.Node { return gen.Block(gen.Ex(gen.I("u")), gen.Ex(gen.Ca(gen.I("f"), gen.I("b")))) },
			func() *gen.Node { return gen.Ex(gen.Ca(gen.I("f"), gen.I("a"), fn(gen.Ex(gen.I("u")), gen.Ret(gen.I("a"))))) },
			func() *gen.Node { return gen.Ret(gen.Ca(gen.I("f"), gen.I("b"))) },
		}
		maxd := 3
		if c.Thorough() {
			maxd = 4
		}
		for d := 1; d <= maxd; d++ {
			idx := make([]int, d)
			for {
				for ii, mk := range inner {
					if !c.Next() || c.Tick() {
						continue
					}
					s := mk()
					name := fmt.Sprintf("inner%d", ii)
					for l := d - 1; l >= 0; l-- {
						s = bls[idx[l]].wrap(s)
						name = bls[idx[l]].name + "/" + name
					}
					c.Inc("braceless_chain_programs")
					if ii != 3 { // a return statement needs a function around it
						runProg([]*gen.Node{gen.Ex(gen.I("u")), s, gen.Ex(gen.Ca(gen.I("v")))}, "braceless:top:"+name, 0)
						runProg([]*gen.Node{gen.Block(gen.Ex(gen.I("u")), gen.Clone(s), gen.Ex(gen.Ca(gen.I("v")))), gen.Ex(gen.I("t"))}, "braceless:block:"+name, 0)
					}
					runProg([]*gen.Node{gen.Func("g", []string{"p"}, gen.Ex(gen.I("u")), gen.Clone(s), gen.Ex(gen.Ca(gen.I("v")))), gen.Ex(gen.I("t"))}, "braceless:function:"+name, 0)
				}
				i := d - 1
				for i >= 0 {
					idx[i]++
					if idx[i] < len(bls) {
						break
					}
					idx[i] = 0
					i--
				}
				if i < 0 {
					break
				}
			}
		}
	}
	// (2) statement families (brace-less bodies, function expressions in every position)
	level := 1
	if c.Thorough() {
		level = 2
	}
	gen.Programs(level, func(prog []*gen.Node, name string) {
		if !c.Next() || c.Tick() {
			return
		}
		c.Inc("family_programs")
		runProg(prog, name, 0)
	})
	// (3) final-state clause on ALL token sequences <= n and all byte strings <= 4
	n := 4
	if c.Thorough() {
		n = 5
	}
	for L := 0; L <= n; L++ {
		gen.EachSeq(len(gen.T), L, func(idx []int) bool {
			if !c.Next() {
				return true
			}
			if c.Tick() {
				return false
			}
			src := gen.Join(gen.T, idx, " ")
			c.Cur(src)
			for mi := range Modes {
				if L == 5 && (mi == 1 || mi == 2) {
					continue
				}
				if L == 4 && !c.Thorough() && (mi == 1 || mi == 2) {
					continue
				}
				c.Inc("final_state_inputs")
				if k, d := c16Final(src, mi); k != "" && c.ShrinkOK("final"+k) {
					fails := func(x []int) bool { kk, _ := c16Final(gen.Join(gen.T, x, " "), mi); return kk == k }
					sh := core.ShrinkSeq(append([]int{}, idx...), gen.Simpler, fails)
					s2 := gen.Join(gen.T, sh, " ")
					_, d = c16Final(s2, mi)
					report("final", k, d, s2, nil, mi, len(sh), "")
				}
			}
			return true
		})
		if !c.Expired() {
			c.SetMax("token_length_completed", int64(L))
		}
	}
	A := lexAlphabet
	for L := 1; L <= 4; L++ {
		gen.EachSeq(len(A), L, func(idx []int) bool {
			if !c.Next() {
				return true
			}
			if c.Tick() {
				return false
			}
			b := make([]byte, L)
			for i, x := range idx {
				b[i] = A[x]
			}
			src := string(b)
			c.Cur(src)
			for mi := range Modes {
				c.Inc("final_state_inputs")
				if L == 4 && mi != 0 && !c.Thorough() {
					continue
				}
				k, d := c16Final(src, mi)
				report("final", k, d, src, nil, mi, L, "")
			}
			return true
		})
	}
}

func c16Replay(pl json.RawMessage) (string, []core.Violation) {
	var p c16Payload
	json.Unmarshal(pl, &p)
	out := fmt.Sprintf("clause %s mode %s source %q", p.Clause, Modes[p.Mode], p.Src)
	var k, d string
	if p.Clause == "nestP" {
		pbPlugLang = true
		defer func() { pbPlugLang = false }()
		p.Clause = "nest"
	}
	if p.Clause == "nest" {
		paths := map[int]string{}
		for _, s := range p.Paths {
			var o int
			var path string
			if i := strings.IndexByte(s, ':'); i >= 0 {
				fmt.Sscanf(s[:i], "%d", &o)
				path = s[i+1:]
			}
			paths[o] = path
		}
		k, d, _, _ = c16Nest(p.Src, paths, Modes[p.Mode])
	} else {
		k, d = c16Final(p.Src, p.Mode)
	}
	if k != "" {
		return out, []core.Violation{{Kind: k, Config: Modes[p.Mode].String(), Case: fmt.Sprintf("%q", p.Src), Detail: d}}
	}
	return out, nil
}

var _ = lexer.NewBuilder

func init() {
	core.Register(&core.PropSpec{
		ID: "C16", Level: "model_checking",
		Rule:     "context stack vs reference nesting model: every chain of <= d nesting constructors (d=3 quick; 4 full alphabet + 5 reduced alphabet thorough) over {block, if/else/while/for block, function declaration, function expression as call argument / array element / object value / let initialiser / return value / IIFE / inside if-, while- and for-headers / operand / index} around 3 leaf bodies, with a sibling statement before and after the nested construct at every level, plus the statement families (brace-less bodies); each parsed (space layout and LF-in-every-gap layout) with one statement and one expression interceptor that record IsInFunction(), CurrentContext() and the current token; oracle per invocation: the token's nesting path recorded by the harness unparser (function body braces = function body, not an extra block) gives IsInFunction <=> path contains a function and CurrentContext = innermost element. Final-state clause: ALL token sequences <= n (4 quick, 5 thorough) x modes, all byte strings <= 4, every truncation of every nested program at a token boundary and every single-token deletion: after ParseProgram CurrentContext()=global and IsInFunction()=false, with and without interceptors. states = distinct context stacks observed at an invocation; transitions = interceptor invocations checked Added: every ordered pair of nesting constructors x leaf bodies side by side (top level and inside a function); chains of one constructor (and alternating pairs) nested 5, 9, 17, 33, 65 (129, 257 thorough) deep; one constructor around (and innermost inside) 8, 16, 32, 64 (128, 256) levels of another constructor, for every ordered pair; sub-parse clause: every program again with a statement interceptor that parses a nested snippet with a SECOND parser of the same builder before answering. Installation sets (round 11): every program again on builders that carry only the expression interceptor, only the statement interceptor, and both between pass-through interceptors installed through Install. Plugin construct (round 12): every program again behind a plugin statement that reads a parameter list with the public ParseFunctionParameters and an expression body; the plugin language: 400 programs with LOOP blocks (ParseBlockStatement called by the plugin) and UNLESS bodies (ParseStatement), two layouts, all query variants. Added (round 13): brace-less chains - every chain of <= 3 (4) brace-less while / for / if-then / if-else / then-with-else bodies around an inner statement that asks, at top level, in a block and in a function body.",
		Assume:   []string{"nesting paths come from the harness unparser; its statement structure is cross-checked against goja by C02"},
		QuickSec: 300, ThorSec: 3600, Run: c16Run, Replay: c16Replay,
		Evals: "programs_parsed", Nontriv: "programs_with_invocations", States: "states", Trans: "interceptor_invocations",
	})
}
