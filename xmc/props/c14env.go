package props

import (
	"encoding/json"
	"fmt"
	"strings"

	"github.com/xjslang/xjs/ast"
	"github.com/xjslang/xjs/compiler"
	"github.com/xjslang/xjs/lexer"
	"github.com/xjslang/xjs/parser"
	"github.com/xjslang/xjs/token"

	"xmc/core"
	"xmc/gen"
	"xmc/ref"
)

// C14, environment sweep. The histories explore every short call sequence on a few inputs; the sweep turns
// it around: every input of the bounded universes, each through a small fixed set of ENVIRONMENTS - ways in
// which a program obtains its builder and its compiler. A result (tree with positions, errors, code, map)
// is a function of the input, the mode and the output options; it does not depend on whether the objects
// are fresh or have served many other inputs before, nor on what else is installed on a builder that the
// input does not use.
//
//	parser environments: 0 fresh plain builder
//	                     1 fresh builder with an unused language extension (3 registered operators on
//	                       spellings outside every alphabet, pass-through token / statement / expression
//	                       interceptors installed through a plugin)
//	                     2 ONE plain builder per mode for the whole run (a builder builds many parsers)
//	                     3 ONE extended builder per mode for the whole run
//	                     4 fresh builder whose lexer builder is shared with a sibling parser builder of
//	                       the opposite modes, which builds and runs a parser on the same input first
//	compiler environments: 0 fresh compiler; 1 ONE compiler per option set for the whole run

type c14EnvPayload struct {
	Src  string `json:"src"`
	Mode int    `json:"mode"`
}

var c14EnvPlain, c14EnvExt [4]*parser.Builder
var c14EnvCompilers = map[Cfg]*compiler.Compiler{}

func c14Extend(pb *parser.Builder) {
	pb.Install(func(pb *parser.Builder) {
		lb := pb.LexerBuilder
		types := map[string]token.Type{}
		for _, sp := range []string{"OPX", "PREX", "BANGX"} {
			types[sp] = lb.RegisterTokenType("tt_" + sp)
		}
		lb.UseTokenInterceptor(func(l *lexer.Lexer, next func() token.Token) token.Token {
			t := next()
			if t.Type == token.IDENT {
				if ty, ok := types[t.Literal]; ok {
					t.Type = ty
				}
			}
			return t
		})
		pb.RegisterInfixOperator(types["OPX"], parser.SUM, mkInfix)
		pb.RegisterPrefixOperator(types["PREX"], mkPrefix)
		pb.RegisterPostfixOperator(types["BANGX"], mkPostfix)
		pb.UseStatementInterceptor(func(p *parser.Parser, next func() ast.Statement) ast.Statement { return next() })
		pb.UseExpressionInterceptor(func(p *parser.Parser, next func() ast.Expression) ast.Expression { return next() })
	})
}

func c14EnvPB(env, mi int, src string) *parser.Builder {
	m := Modes[mi]
	switch env {
	case 1:
		pb := newPB(m)
		c14Extend(pb)
		return pb
	case 2:
		if c14EnvPlain[mi] == nil {
			c14EnvPlain[mi] = newPB(m)
		}
		return c14EnvPlain[mi]
	case 3:
		if c14EnvExt[mi] == nil {
			c14EnvExt[mi] = newPB(m)
			c14Extend(c14EnvExt[mi])
		}
		return c14EnvExt[mi]
	case 4:
		lb := lexer.NewBuilder()
		sib := parser.NewBuilder(lb).WithTolerantMode(!m.Tolerant).WithSmartSemicolon(!m.Smart)
		pb := parser.NewBuilder(lb).WithTolerantMode(m.Tolerant).WithSmartSemicolon(m.Smart)
		parseWith(sib, src)
		return pb
	}
	return newPB(m)
}

var c14EnvNames = []string{"fresh plain builder", "fresh builder with an unused language extension", "one plain builder for the whole run", "one extended builder for the whole run", "lexer builder shared with a sibling builder of the opposite modes that parsed the input first"}

var c14MapPairs = []Cfg{{}, {Pretty: true, Indent: -2, Semi: -1}, {Pretty: true, Indent: 3, Semi: 0}, {Pretty: true, Indent: -1, Semi: 1}}

var c14EnvCfgs = []Cfg{{}, {Map: true}, {Pretty: true, Indent: -2, Semi: -1, Map: true}, {Pretty: true, Indent: 3, Semi: 0}}

func errsText(es []parser.ParserError) string {
	var sb strings.Builder
	for _, e := range es {
		fmt.Fprintf(&sb, "%s@%v;", e.Message, e.Range)
	}
	return sb.String()
}

// c14EnvCheck: one input in one mode through all environments.
func c14EnvCheck(src string, mi int) (kind, detail string, accepted bool, evals int) {
	base := parseWith(c14EnvPB(0, mi, src), src)
	if base.Panic != "" {
		return "", "", false, 1 // C11's subject
	}
	bd, be := dumpTree(base.Prog), errsText(base.Errs)
	evals = 1
	for env := 1; env < len(c14EnvNames); env++ {
		o := parseWith(c14EnvPB(env, mi, src), src)
		evals++
		if o.Panic != "" {
			return "env-panic", fmt.Sprintf("%s, mode %s: %s", c14EnvNames[env], Modes[mi], o.Panic), false, evals
		}
		if e := errsText(o.Errs); e != be || (o.Err == nil) != (base.Err == nil) {
			return "env-errors-differ", fmt.Sprintf("mode %s: %s reports %q, a %s reports %q", Modes[mi], c14EnvNames[env], e, c14EnvNames[0], be), false, evals
		}
		{
			if sh := sharedMutable(base.Prog, o.Prog); sh != "" {
				return "env-shared-mutable-memory", fmt.Sprintf("mode %s: the trees of two parsers built from independent builders share mutable memory: %s", Modes[mi], sh), false, evals
			}
		}
		if d := dumpTree(o.Prog); d != bd {
			return "env-tree-differs", fmt.Sprintf("mode %s: %s gives a different tree (with positions) than a %s", Modes[mi], c14EnvNames[env], c14EnvNames[0]), false, evals
		}
	}
	if base.Err != nil {
		return "", "", false, evals
	}
	// the debug string form of the program equals its compact compilation; compiling does not modify the tree
	if compact := compileCfg(base.Prog, Cfg{}); compact.Panic == "" {
		evals++
		if ts := safeToString(base.Prog); ts != compact.Code {
			return "env-tostring-differs-from-compact", fmt.Sprintf("debug.ToString gives %q, compact compilation %q", core.Short(ts, 300), core.Short(compact.Code, 300)), true, evals
		}
	}
	defer func() {
		if kind == "" {
			if after := dumpTree(base.Prog); after != bd {
				kind, detail = "env-compile-modifies-tree", "the tree dump (positions, flags, comments) differs after the compilations of this input"
			}
		}
	}()
	// requesting a source map does not change the generated code (every option set, with and without)
	for _, cfg := range c14MapPairs {
		plain := compileCfg(base.Prog, cfg)
		withMap := cfg
		withMap.Map = true
		mapped := compileCfg(base.Prog, withMap)
		evals += 2
		if plain.Panic != "" || mapped.Panic != "" {
			continue // C11's subject
		}
		if plain.Code != mapped.Code {
			return "env-map-changes-code", fmt.Sprintf("%s: code without a source map %q, with WithSourceMap() %q", cfg, core.Short(plain.Code, 300), core.Short(mapped.Code, 300)), true, evals
		}
	}
	for _, cfg := range c14EnvCfgs {
		fresh := compileCfg(base.Prog, cfg)
		if fresh.Panic != "" {
			continue // C11's subject
		}
		k := c14EnvCompilers[cfg]
		if k == nil {
			k = cfg.Build()
			c14EnvCompilers[cfg] = k
		}
		var reused CompOut
		func() {
			defer func() {
				if r := recover(); r != nil {
					reused.Panic = panicText(r)
				}
			}()
			r := k.Compile(base.Prog)
			reused.Code, reused.Map = r.Code, r.SourceMap
		}()
		evals++
		if reused.Panic != "" {
			return "env-panic", fmt.Sprintf("%s, one compiler for the whole run: %s", cfg, reused.Panic), true, evals
		}
		if reused.Code != fresh.Code {
			return "env-code-differs", fmt.Sprintf("%s: a compiler that compiled other programs before gives %q, a fresh compiler %q", cfg, core.Short(reused.Code, 300), core.Short(fresh.Code, 300)), true, evals
		}
		if mapText(reused.Map) != mapText(fresh.Map) {
			return "env-map-differs", fmt.Sprintf("%s: a compiler that compiled other programs before gives the map %s, a fresh compiler %s", cfg, core.Short(mapText(reused.Map), 300), core.Short(mapText(fresh.Map), 300)), true, evals
		}
	}
	return "", "", true, evals
}

func mapText(m any) string {
	b, _ := json.Marshal(m)
	return string(b)
}

// c14EnvReset drops the long-lived objects (replay starts from a clean process state anyway).
func c14EnvReset() {
	c14EnvPlain, c14EnvExt = [4]*parser.Builder{}, [4]*parser.Builder{}
	c14EnvCompilers = map[Cfg]*compiler.Compiler{}
}

func c14Env(c *core.Ctx) {
	run := func(src string, size int) {
		c.Cur(src)
		c.Inc("environment_inputs")
		for mi := range Modes {
			k, d, acc, n := c14EnvCheck(src, mi)
			c.Count("environment_observations", int64(n))
			if acc && mi == 0 {
				c.Inc("environment_accepted_inputs")
			}
			if k != "" && c.ShrinkOK(k) {
				pl, _ := json.Marshal(c14Payload{Clause: "env", Text: []string{src, fmt.Sprint(mi)}})
				c.Violate(core.Violation{Kind: k, Config: Modes[mi].String(), Case: fmt.Sprintf("%q", core.Short(src, 200)), Detail: d, Payload: pl, Size: size})
			}
		}
	}
	n := 3
	if c.Thorough() {
		n = 4
	}
	for L := 1; L <= n; L++ {
		gen.EachSeq(len(gen.T), L, func(idx []int) bool {
			if !c.Next() {
				return true
			}
			if c.Tick() {
				return false
			}
			run(gen.Join(gen.T, idx, " "), L)
			if L >= 2 {
				run(gen.Join(gen.T, idx, "\n"), L)
			}
			return true
		})
	}
	level := 1
	if c.Thorough() {
		level = 2
	}
	gen.Programs(level, func(prog []*gen.Node, name string) {
		if !c.Next() || c.Tick() {
			return
		}
		toks := gen.UnparseProgram(prog, false)
		run(gen.RenderDefault(toks), len(toks))
		run(gen.Render(toks, func(int) string { return "\n" }, func(int) int { return 1 }), len(toks))
		run(gen.Render(toks, func(i int) string {
			if i%3 == 0 {
				return " // c\n"
			}
			return " "
		}, func(int) int { return 1 }), len(toks))
	})
	for i, sp := range gen.Scale(c.Thorough()) {
		if !c.Mine(int64(i)) || c.Tick() {
			continue
		}
		run(sp.Src, 1000)
	}
	depth := 2
	if c.Thorough() {
		depth = 3
	}
	for d := 1; d <= depth; d++ {
		gen.Chains(gen.Holes(c.Thorough() && d < 3), gen.Leaves(), d, true, func(e *gen.Node, name string) {
			if !c.Next() || c.Tick() {
				return
			}
			toks := gen.UnparseProgram([]*gen.Node{gen.Ex(e), gen.Let("x", gen.Clone(e))}, false)
			run(gen.RenderDefault(toks), len(toks))
		})
	}
	for pi, prog := range gen.XStatements(1) {
		if !c.Mine(int64(pi)) || c.Tick() {
			continue
		}
		run(gen.RenderDefault(gen.UnparseProgram(prog, false)), 60)
	}
	for ii, name := range gen.Identifiers() {
		if !c.Mine(int64(ii)) || c.Tick() {
			continue
		}
		for _, src := range gen.IdentPrograms(name) {
			run(src, 40)
		}
	}
}

// ---- compiler option histories: a compiler is what the last calls of each option made it.
// WithPrettyPrint(opts...) starts from the defaults (two spaces, semicolons) and applies opts in order;
// WithSourceMap() stays on; a Compile in the middle of the history changes nothing.

type c14KCall struct {
	name  string
	apply func(k *compiler.Compiler)
	model func(m *Cfg)
}

var c14KCalls = []c14KCall{
	{"WithPrettyPrint()", func(k *compiler.Compiler) { k.WithPrettyPrint() }, func(m *Cfg) { m.Pretty, m.Indent, m.Semi = true, 2, 1 }},
	{"WithPrettyPrint(WithTabs())", func(k *compiler.Compiler) { k.WithPrettyPrint(compiler.WithTabs()) }, func(m *Cfg) { m.Pretty, m.Indent, m.Semi = true, -1, 1 }},
	{"WithPrettyPrint(WithSpaces(4), WithSemi(false))", func(k *compiler.Compiler) { k.WithPrettyPrint(compiler.WithSpaces(4), compiler.WithSemi(false)) }, func(m *Cfg) { m.Pretty, m.Indent, m.Semi = true, 4, 0 }},
	{"WithPrettyPrint(WithSemi(false), WithSemi(true), WithSpaces(1))", func(k *compiler.Compiler) {
		k.WithPrettyPrint(compiler.WithSemi(false), compiler.WithSemi(true), compiler.WithSpaces(1))
	}, func(m *Cfg) { m.Pretty, m.Indent, m.Semi = true, 1, 1 }},
	{"WithPrettyPrint(WithSpaces(3), WithTabs())", func(k *compiler.Compiler) { k.WithPrettyPrint(compiler.WithSpaces(3), compiler.WithTabs()) }, func(m *Cfg) { m.Pretty, m.Indent, m.Semi = true, -1, 1 }},
	{"WithPrettyPrint(WithTabs(), WithSpaces(0))", func(k *compiler.Compiler) { k.WithPrettyPrint(compiler.WithTabs(), compiler.WithSpaces(0)) }, func(m *Cfg) { m.Pretty, m.Indent, m.Semi = true, 0, 1 }},
	{"WithSourceMap()", func(k *compiler.Compiler) { k.WithSourceMap() }, func(m *Cfg) { m.Map = true }},
}

var c14KProbes = []string{"function f(a) {\n  if (a) {\n    return - -a\n  }\n  // c\n  let t = `x  \n y`; t\n}", "x = a + ++b; while (c) { d-- }\n\n\ny", "let o = {k: [1, 2], f: function() { return 1 }}"}

func c14KHistory(hist []int) (kind, detail string) {
	k := compiler.New()
	var m Cfg
	m.Indent, m.Semi = -2, -1
	var names []string
	progs := make([]*ast.Program, len(c14KProbes))
	for i, s := range c14KProbes {
		progs[i] = parseMode(s, Mode{}).Prog
	}
	for i, h := range hist {
		c14KCalls[h].apply(k)
		c14KCalls[h].model(&m)
		names = append(names, c14KCalls[h].name)
		if i == len(hist)/2 {
			func() {
				defer func() { recover() }()
				k.Compile(progs[0])
			}()
		}
	}
	for i, prog := range progs {
		want := compileCfg(prog, m)
		var got CompOut
		func() {
			defer func() {
				if r := recover(); r != nil {
					got.Panic = panicText(r)
				}
			}()
			r := k.Compile(prog)
			got.Code, got.Map = r.Code, r.SourceMap
		}()
		if got.Panic != "" || want.Panic != "" {
			if got.Panic != want.Panic {
				return "compiler-option-history", fmt.Sprintf("New().%s on %q: panic %q; a compiler configured as %s: panic %q", strings.Join(names, "."), c14KProbes[i], got.Panic, m, want.Panic)
			}
			continue
		}
		if got.Code != want.Code || mapText(got.Map) != mapText(want.Map) {
			return "compiler-option-history", fmt.Sprintf("New().%s compiles %q to %q (map %s); a compiler configured as %s gives %q (map %s)", strings.Join(names, "."), c14KProbes[i], core.Short(got.Code, 200), core.Short(mapText(got.Map), 120), m, core.Short(want.Code, 200), core.Short(mapText(want.Map), 120))
		}
	}
	return "", ""
}

func c14CompilerOptions(c *core.Ctx) {
	n := 3
	if c.Thorough() {
		n = 4
	}
	for L := 1; L <= n; L++ {
		gen.EachSeq(len(c14KCalls), L, func(idx []int) bool {
			if !c.Next() || c.Tick() {
				return true
			}
			c.Inc("compiler_option_histories")
			if k, d := c14KHistory(idx); k != "" && c.ShrinkOK(k) {
				sh := core.ShrinkSeq(append([]int{}, idx...), nil, func(x []int) bool { kk, _ := c14KHistory(x); return kk != "" })
				if _, d2 := c14KHistory(sh); d2 != "" {
					d = d2
				} else {
					sh = idx
				}
				var names, nums []string
				for _, h := range sh {
					names = append(names, c14KCalls[h].name)
					nums = append(nums, fmt.Sprint(h))
				}
				pl, _ := json.Marshal(c14Payload{Clause: "kopt", Text: nums})
				c.Violate(core.Violation{Kind: k, Case: "New()." + strings.Join(names, "."), Detail: d, Payload: pl, Size: len(sh)})
			}
			return true
		})
	}
}

// ---- a builder is extended AFTER it has built a parser: the earlier parser is unaffected.
// k interceptors (or operators) of one kind are installed, a parser is built, ONE more item of the same kind
// is installed (it would change the result), and only then the first parser parses. It must give what a
// parser of an identical k-item builder gives that was never extended. k = 0..17 covers every slice capacity
// class of the builder's lists.

var c14LateKinds = []string{"statement interceptor", "expression interceptor", "token interceptor", "infix operator", "prefix operator"}

func c14LateBuilder(kind, k int, extra bool) (*parser.Builder, func()) {
	lb := lexer.NewBuilder()
	pb := parser.NewBuilder(lb)
	addOne := func(i int, loud bool) {
		switch kind {
		case 0:
			pb.UseStatementInterceptor(func(p *parser.Parser, next func() ast.Statement) ast.Statement {
				if loud && p.CurrentToken.Type == token.LET {
					p.NextToken() // the late plugin swallows the keyword: a visibly different result
				}
				return next()
			})
		case 1:
			pb.UseExpressionInterceptor(func(p *parser.Parser, next func() ast.Expression) ast.Expression {
				e := next()
				if loud {
					return &cNode{Kind: "cpre", Tok: token.Token{Literal: "late"}, R: e}
				}
				return e
			})
		case 2:
			lb.UseTokenInterceptor(func(l *lexer.Lexer, next func() token.Token) token.Token {
				t := next()
				if loud && t.Type == token.IDENT {
					t.Literal = "late_" + t.Literal
				}
				return t
			})
		case 3:
			ty := lb.RegisterTokenType(fmt.Sprintf("op%d", i))
			pb.RegisterInfixOperator(ty, 3+i%8, mkInfix)
		case 4:
			ty := lb.RegisterTokenType(fmt.Sprintf("pre%d", i))
			pb.RegisterPrefixOperator(ty, mkPrefix)
		}
	}
	if kind >= 3 {
		// spellings op0..opN / pre0..preN are retyped by one token interceptor installed first
		lb.UseTokenInterceptor(func(l *lexer.Lexer, next func() token.Token) token.Token {
			t := next()
			if t.Type == token.IDENT && (strings.HasPrefix(t.Literal, "op") || strings.HasPrefix(t.Literal, "pre")) {
				t.Type = lb.RegisterTokenType(t.Literal)
			}
			return t
		})
	}
	for i := 0; i < k; i++ {
		addOne(i, false)
	}
	return pb, func() { addOne(k, true) }
}

func c14LateCheck(kind, k int, src string) (kind2, detail string) {
	defer func() {
		if r := recover(); r != nil {
			kind2, detail = "late-extension-panic", fmt.Sprintf("%d %ss, Build, one more, ParseProgram of the first parser on %q: %s", k, c14LateKinds[kind], src, panicText(r))
		}
	}()
	ref0, _ := c14LateBuilder(kind, k, false)
	want := parseWith(ref0, src)
	pb, extend := c14LateBuilder(kind, k, false)
	p := pb.Build(src)
	extend()
	later := pb.Build(src) // the builder goes on being used
	prog, err := p.ParseProgram()
	errs := p.Errors()
	later.ParseProgram()
	if want.Panic != "" {
		return "", ""
	}
	if (err == nil) != (want.Err == nil) || errsText(errs) != errsText(want.Errs) || dumpTree(prog) != dumpTree(want.Prog) {
		return "parser-affected-by-later-extension", fmt.Sprintf("a builder with %d %ss built a parser, got one more %s, then the first parser parsed %q: tree %s errors %q; a parser of an identical builder that was never extended: tree %s errors %q",
			k, c14LateKinds[kind], c14LateKinds[kind], src, ref.XStmts(prog.Statements), errsText(errs), ref.XStmts(want.Prog.Statements), errsText(want.Errs))
	}
	return "", ""
}

func c14Late(c *core.Ctx) {
	probes := []string{"let a = 1; b = a + 2", "f(x)\nlet y = x op1 z", "pre0 a; let q = pre1 b op0 c", "if (a) { let t = b }"}
	n := 0
	for kind := range c14LateKinds {
		for k := 0; k <= 17; k++ {
			for _, src := range probes {
				n++
				if !c.Mine(int64(n)) || c.Tick() {
					continue
				}
				c.Cur(fmt.Sprintf("%d %ss, then one more: %q", k, c14LateKinds[kind], src))
				c.Inc("late_extension_cases")
				if kd, d := c14LateCheck(kind, k, src); kd != "" && c.ShrinkOK(kd+c14LateKinds[kind]) {
					pl, _ := json.Marshal(c14Payload{Clause: "late", Text: []string{fmt.Sprint(kind), fmt.Sprint(k), src}})
					c.Violate(core.Violation{Kind: kd, Config: c14LateKinds[kind], Case: fmt.Sprintf("%d %ss + 1 after Build; %q", k, c14LateKinds[kind], src), Detail: d, Payload: pl, Size: k})
				}
			}
		}
	}
}
