package props

import (
	"encoding/json"
	"fmt"
	"strings"

	"github.com/xjslang/xjs/ast"
	"github.com/xjslang/xjs/lexer"
	"github.com/xjslang/xjs/parser"
	"github.com/xjslang/xjs/token"

	"xmc/core"
	"xmc/gen"
	"xmc/ref"
)

// C13: parser modes differ only where documented (mode product over programs).

type c13Payload struct {
	Clause string `json:"clause"`
	Src    string `json:"src"`
	Src2   string `json:"src2,omitempty"`
}

// clause A: strict-accepted => tolerant gives the identical tree (positions included), no errors;
// smart == default when no ( or [ starts a line.
// measured by the worker: parses executed, and a sink for product states (acceptance vector + error counts)
var c13Parses int64
var c13Sink func(state string)

// c13ExtPB: one long-lived builder per mode that carries a language extension the programs never use (an
// infix, a prefix and a postfix operator on spellings outside every alphabet, and pass-through token,
// statement and expression interceptors). What a mode means does not depend on what else is on the builder.
var c13ExtBuilders [4]*parser.Builder

func c13ExtPB(mi int) *parser.Builder {
	if c13ExtBuilders[mi] != nil {
		return c13ExtBuilders[mi]
	}
	pb := newPB(Modes[mi])
	lb := pb.LexerBuilder
	types := map[string]token.Type{}
	for _, sp := range []string{"OPX", "PREX", "BANGX"} {
		types[sp] = lb.RegisterTokenType("tt_" + sp)
	}
	lb.UseTokenInterceptor(func(l *lexer.Lexer, next func() token.Token) token.Token {
		t := next()
		if t.Type == token.IDENT {
			if ty, ok := types[t.Literal]; ok {
				t.Type = ty
			}
		}
		return t
	})
	pb.RegisterInfixOperator(types["OPX"], parser.PRODUCT+1, mkInfix)
	pb.RegisterPrefixOperator(types["PREX"], mkPrefix)
	pb.RegisterPostfixOperator(types["BANGX"], mkPostfix)
	pb.UseStatementInterceptor(func(p *parser.Parser, next func() ast.Statement) ast.Statement { return next() })
	pb.UseExpressionInterceptor(func(p *parser.Parser, next func() ast.Expression) ast.Expression { return next() })
	c13ExtBuilders[mi] = pb
	return pb
}

func c13Modes(src string) (kind, detail string, accepted bool) {
	var outs [4]ParseOut
	defer func() {
		if c13Sink != nil {
			var sb strings.Builder
			for i := range outs {
				fmt.Fprintf(&sb, "%v:%d:", outs[i].Err == nil, len(outs[i].Errs))
				if outs[i].Err == nil && outs[i].Prog != nil {
					sb.WriteString(ref.XStmts(outs[i].Prog.Statements))
				}
				sb.WriteByte('|')
			}
			c13Sink(sb.String())
		}
	}()
	for i, m := range Modes {
		c13Parses++
		outs[i] = parseMode(src, m)
		if outs[i].Panic != "" {
			return "panic", m.String() + ": " + outs[i].Panic, false
		}
	}
	var dumps [4]string
	for i := range outs {
		if outs[i].Err == nil && outs[i].Prog != nil {
			dumps[i] = dumpTree(outs[i].Prog)
		}
	}
	// strict (0) vs tolerant (1); strict+smart (2) vs tolerant+smart (3)
	for _, pr := range [][2]int{{0, 1}, {2, 3}} {
		s, t := pr[0], pr[1]
		if outs[s].Err != nil {
			continue
		}
		accepted = true
		if outs[t].Err != nil || len(outs[t].Errs) > 0 {
			return "tolerant-rejects", fmt.Sprintf("%s accepts, %s reports %v", Modes[s], Modes[t], outs[t].Err), true
		}
		if dumps[s] != dumps[t] {
			return "tolerant-tree-differs", fmt.Sprintf("%s tree %s, %s tree %s", Modes[s], ref.XStmts(outs[s].Prog.Statements), Modes[t], ref.XStmts(outs[t].Prog.Statements)), true
		}
	}
	// undocumented leniency: when strict's FIRST error is neither a missing statement separator nor an
	// unclosed block, both modes have run identically up to it, so tolerant must report the same first
	// error
	for _, pr := range [][2]int{{0, 1}, {2, 3}} {
		s, t := pr[0], pr[1]
		if len(outs[s].Errs) == 0 {
			continue
		}
		e := outs[s].Errs[0]
		if strings.Contains(e.Message, "semicolon") || strings.Contains(e.Message, "unclosed") {
			continue
		}
		if len(outs[t].Errs) == 0 {
			return "tolerant-accepts-malformed", fmt.Sprintf("%s first error %q at %v; %s reports no error", Modes[s], e.Message, e.Range, Modes[t]), accepted
		}
		if outs[t].Errs[0].Range != e.Range {
			return "tolerant-first-error-differs", fmt.Sprintf("%s first error %q at %v; %s first error %q at %v", Modes[s], e.Message, e.Range, Modes[t], outs[t].Errs[0].Message, outs[t].Errs[0].Range), accepted
		}
	}
	// the same four results on a builder that carries an unused language extension
	for i, m := range Modes {
		if pbPlugLang {
			break // the long-lived extension builders speak the plain language
		}
		c13Parses++
		x := parseWith(c13ExtPB(i), src)
		if x.Panic != "" {
			return "panic", m.String() + " on a builder with registered operators: " + x.Panic, accepted
		}
		if (x.Err == nil) != (outs[i].Err == nil) || len(x.Errs) != len(outs[i].Errs) {
			return "mode-depends-on-builder-extensions", fmt.Sprintf("%s: plain builder err=%v (%d errors); builder with unused registered operators and pass-through interceptors err=%v (%d errors)", m, outs[i].Err, len(outs[i].Errs), x.Err, len(x.Errs)), accepted
		}
		if x.Prog != nil && outs[i].Prog != nil {
			if a, b := ref.XStmts(x.Prog.Statements), ref.XStmts(outs[i].Prog.Statements); a != b {
				return "mode-depends-on-builder-extensions", fmt.Sprintf("%s: plain builder tree %s; builder with unused registered operators and pass-through interceptors %s", m, b, a), accepted
			}
		}
	}
	if !gen.HasLineInitialBracket(src) {
		for _, pr := range [][2]int{{0, 2}, {1, 3}} {
			d, s := pr[0], pr[1]
			if (outs[d].Err == nil) != (outs[s].Err == nil) {
				return "smart-acceptance-differs", fmt.Sprintf("no line-initial bracket, %s err=%v, %s err=%v", Modes[d], outs[d].Err, Modes[s], outs[s].Err), accepted
			}
			if outs[d].Err == nil && dumps[d] != dumps[s] {
				return "smart-tree-differs", fmt.Sprintf("no line-initial bracket, %s tree %s, %s tree %s", Modes[d], ref.XStmts(outs[d].Prog.Statements), Modes[s], ref.XStmts(outs[s].Prog.Statements)), accepted
			}
			if outs[d].Err != nil && outs[d].Prog != nil && outs[s].Prog != nil {
				// also on rejected inputs the flag must not matter when no bracket starts a line
				if len(outs[d].Errs) != len(outs[s].Errs) || ref.XStmts(outs[d].Prog.Statements) != ref.XStmts(outs[s].Prog.Statements) {
					return "smart-leak-on-error", fmt.Sprintf("no line-initial bracket, %s: %d errors %s; %s: %d errors %s", Modes[d], len(outs[d].Errs), ref.XStmts(outs[d].Prog.Statements), Modes[s], len(outs[s].Errs), ref.XStmts(outs[s].Prog.Statements)), accepted
				}
			}
		}
	}
	return "", "", accepted
}

// c13Late: a parser built in mode m whose builder is switched to m2 before ParseProgram is called behaves as
// in mode m (the modes are read at Build time).
func c13Late(src string) (kind, detail string) {
	for _, m := range Modes {
		want := parseMode(src, m)
		if want.Panic != "" {
			return "", ""
		}
		wd := dumpTree(want.Prog)
		for _, m2 := range Modes {
			if m2 == m {
				continue
			}
			pb := newPB(m)
			var got ParseOut
			func() {
				defer func() {
					if r := recover(); r != nil {
						got.Panic = panicText(r)
					}
				}()
				p := pb.Build(src)
				pb.WithTolerantMode(m2.Tolerant)
				pb.WithSmartSemicolon(m2.Smart)
				got.Prog, got.Err = p.ParseProgram()
				got.Errs = p.Errors()
			}()
			if got.Panic != "" {
				return "panic", got.Panic
			}
			if dumpTree(got.Prog) != wd || len(got.Errs) != len(want.Errs) {
				return "mode-read-after-build", fmt.Sprintf("parser built in mode %s, builder switched to %s before ParseProgram: tree %s, %d errors; mode %s gives %s, %d errors",
					m, m2, ref.XStmts(got.Prog.Statements), len(got.Errs), m, ref.XStmts(want.Prog.Statements), len(want.Errs))
			}
		}
	}
	return "", ""
}

// clause B: the second text must be accepted by `mode` without error and have the shape that strict
// default mode gives to the reference text.
// c13SameTol applies c13Same in both tolerant mode combinations (tolerant, tolerant+smart; the reference
// text is parsed in the corresponding non-tolerant mode, so a line-initial bracket means the same on both sides).
func c13SameTol(src, refSrc string) (kind, detail string, ok bool) {
	kind, detail, ok = c13Same(src, Mode{Tolerant: true}, refSrc, Mode{})
	if kind != "" || !ok {
		return
	}
	if gen.HasLineInitialBracket(src) || gen.HasLineInitialBracket(refSrc) {
		return
	}
	k2, d2, ok2 := c13Same(src, Mode{Tolerant: true, Smart: true}, refSrc, Mode{Smart: true})
	if ok2 && k2 != "" {
		return k2, d2, true
	}
	return
}

func c13Same(src string, mode Mode, refSrc string, refMode Mode) (kind, detail string, ok bool) {
	r := parseMode(refSrc, refMode)
	if r.Panic != "" || r.Err != nil {
		return "", "", false
	}
	want := ref.XStmts(r.Prog.Statements)
	o := parseMode(src, mode)
	if o.Panic != "" {
		return "panic", o.Panic, true
	}
	if o.Err != nil {
		return "rejected", fmt.Sprintf("%s rejects %q: %v (expected the tree of %q: %s)", mode, src, o.Err, refSrc, want), true
	}
	if got := ref.XStmts(o.Prog.Statements); got != want {
		return "shape", fmt.Sprintf("%s parses %q to %s; %s parses %q to %s", mode, src, got, refMode, refSrc, want), true
	}
	return "", "", true
}

// clause E: option call histories. The mode of a parser is what the LAST call of each option said (default:
// off); every sequence of <= 4 calls over {WithTolerantMode(true|false), WithSmartSemicolon(true|false)} on a
// fresh builder, also with a Build in the middle, gives a parser that behaves like the parser of that mode on
// a probe set that tells the four modes apart.
var c13OptNames = []string{"WithTolerantMode(true)", "WithTolerantMode(false)", "WithSmartSemicolon(true)", "WithSmartSemicolon(false)"}
var c13Probes = []string{"a\n(b)", "x = 1 y = 2", "{ a", "f\n[0]\n(g)", "if (c) { a\n(b)", "a; b"}

func c13OptHistory(hist []int) (kind, detail string) {
	pb := parser.NewBuilder(lexer.NewBuilder())
	var want Mode
	var names []string
	for i, h := range hist {
		names = append(names, c13OptNames[h])
		switch h {
		case 0:
			pb.WithTolerantMode(true)
			want.Tolerant = true
		case 1:
			pb.WithTolerantMode(false)
			want.Tolerant = false
		case 2:
			pb.WithSmartSemicolon(true)
			want.Smart = true
		case 3:
			pb.WithSmartSemicolon(false)
			want.Smart = false
		}
		if i == len(hist)/2 {
			parseWith(pb, c13Probes[0]) // a parser is built and used in the middle of the history
		}
	}
	for _, src := range c13Probes {
		got, ref0 := parseWith(pb, src), parseMode(src, want)
		if got.Panic != "" || ref0.Panic != "" {
			continue
		}
		if dumpTree(got.Prog) != dumpTree(ref0.Prog) || errsText(got.Errs) != errsText(ref0.Errs) {
			return "option-history", fmt.Sprintf("builder after %s parses %q to %s with errors %q; a builder of mode %s gives %s with errors %q",
				strings.Join(names, "."), src, ref.XStmts(got.Prog.Statements), errsText(got.Errs), want, ref.XStmts(ref0.Prog.Statements), errsText(ref0.Errs))
		}
	}
	return "", ""
}

func c13Options(c *core.Ctx) {
	for L := 1; L <= 4; L++ {
		gen.EachSeq(4, L, func(idx []int) bool {
			if !c.Next() || c.Tick() {
				return true
			}
			c.Inc("option_histories")
			if k, d := c13OptHistory(idx); k != "" && c.ShrinkOK("E"+k) {
				sh := core.ShrinkSeq(append([]int{}, idx...), nil, func(x []int) bool { kk, _ := c13OptHistory(x); return kk != "" })
				_, d2 := c13OptHistory(sh)
				if d2 != "" {
					d = d2
				} else {
					sh = idx
				}
				var names []string
				for _, h := range sh {
					names = append(names, c13OptNames[h])
				}
				pl, _ := json.Marshal(c13Payload{"E", fmt.Sprint(sh), ""})
				c.Violate(core.Violation{Kind: "E-" + k, Case: strings.Join(names, "."), Detail: d, Payload: pl, Size: len(sh)})
			}
			return true
		})
	}
}

// c13PlugLang: the mode product on the plugin language (statements that a plugin parses with ExpectToken,
// ParseStatement, ExpectSemicolonASI ...): what the modes mean does not depend on who calls the parser's methods.
// Clause A only (strict-accepted => tolerant identical; the smart flag is immaterial without a line-initial bracket;
// tolerant reports strict's first error unless it is a missing separator or an unclosed block).
func c13PlugLang(c *core.Ctx, viol func(clause, k, d, src, src2 string, size int)) {
	pbPlugLang = true
	defer func() { pbPlugLang = false }()
	run := func(src string, size int) {
		c.Cur(src)
		c.Inc("inputs")
		c.Inc("plugin_language_inputs")
		k, d, _ := c13Modes(src)
		viol("P", k, d, src, "", size)
	}
	n := 3
	if c.Thorough() {
		n = 4
	}
	A := plugLangAlphabet
	for L := 1; L <= n; L++ {
		gen.EachSeq(len(A), L, func(idx []int) bool {
			if !c.Next() {
				return true
			}
			if c.Tick() {
				return false
			}
			has := false
			for _, x := range idx {
				if x >= 1 && x <= 3 {
					has = true
				}
			}
			if !has {
				return true
			}
			run(gen.Join(A, idx, " "), L)
			if L >= 2 {
				run(gen.Join(A, idx, "\n"), L)
			}
			return true
		})
	}
	for i, src := range plugLangPrograms(c.Thorough()) {
		if !c.Mine(int64(i)) || c.Tick() {
			continue
		}
		run(src, 50)
		run(strings.ReplaceAll(src, " ", "\n"), 50)
		run(strings.ReplaceAll(strings.ReplaceAll(src, " ; ", "\n"), " ;", ""), 50) // separators by line break only
		run(strings.ReplaceAll(src, " ;", ""), 50)                                 // separators dropped (tolerant mode's business)
	}
}

func c13Run(c *core.Ctx) {
	processWarmup(c)
	c13Options(c)
	c13Sink = func(st string) {
		if c.Distinct("mode_product_states", st) {
			c.Inc("distinct_mode_product_states")
		}
	}
	defer func() { c.Count("mode_parses", c13Parses) }()
	viol := func(clause, k, d, src, src2 string, size int) {
		if k == "" || !c.ShrinkOK(clause+k) {
			return
		}
		pl, _ := json.Marshal(c13Payload{clause, src, src2})
		c.Violate(core.Violation{Kind: clause + "-" + k, Case: fmt.Sprintf("%q", src), Detail: d, Payload: pl, Size: size})
	}
	c13PlugLang(c, viol)

	// (A) all token sequences <= n in space and LF layouts
	n := 4
	if c.Thorough() {
		n = 5
	}
	for L := 1; L <= n; L++ {
		gen.EachSeq(len(gen.T), L, func(idx []int) bool {
			if !c.Next() {
				return true
			}
			if c.Tick() {
				return false
			}
			if L == 5 && !c02Prefilter(idx) {
				return true
			}
			for si, sep := range []string{" ", "\n"} {
				if si > 0 && L < 2 {
					continue
				}
				src := gen.Join(gen.T, idx, sep)
				c.Cur(src)
				c.Inc("inputs")
				k, d, acc := c13Modes(src)
				if acc {
					c.Inc("accepted_programs")
				}
				viol("A", k, d, src, "", L)
				if acc && c.Count0()%50021 == 0 {
					c.Sample(src)
				}
			}
			return true
		})
	}
	// (C) on token sequences: every sequence <= n with a bracket ( or [ that is not its first token, laid out with a line
	// break in front of every such bracket (one blank elsewhere, and the all-LF layout). The role of a bracket is known
	// from the token in front of it: after an identifier, a literal, ) or ] it would continue the expression (infix
	// position), after an operator, a delimiter or a keyword it starts an operand. Smart mode must parse the text like
	// default mode parses it with a ';' in front of every line-initial infix bracket. Sequences in which the token in
	// front of a bracket does not decide the role (} ++ --) or in which ) can close a statement header or a parameter
	// list can follow a name (if while for function) are left to the statement families, where the unparser knows.
	{
		operandEnd := map[string]bool{"a": true, "b": true, "1": true, "'s'": true, "`t`": true, ")": true, "]": true, "true": true, "false": true, "null": true}
		undecided := map[string]bool{"}": true, "++": true, "--": true}
		header := map[string]bool{"if": true, "while": true, "for": true, "function": true}
		cls := make([]int, len(gen.TClass))
		for i, t := range gen.TClass {
			for j, u := range gen.T {
				if t == u {
					cls[i] = j
				}
			}
		}
		for L := 2; L <= 4; L++ {
			// length 4: the class alphabet in the quick tier
			na := len(gen.T)
			if L == 4 && !c.Thorough() {
				na = len(cls)
			}
			gen.EachSeq(na, L, func(ci []int) bool {
				idx := ci
				if na == len(cls) {
					idx = make([]int, len(ci))
					for i, x := range ci {
						idx[i] = cls[x]
					}
				}
				if !c.Next() {
					return true
				}
				if c.Tick() {
					return false
				}
				has := false
				for i, x := range idx {
					t := gen.T[x]
					if header[t] {
						return true
					}
					if i > 0 && (t == "(" || t == "[") {
						if undecided[gen.T[idx[i-1]]] {
							return true
						}
						has = true
					}
				}
				if !has {
					return true
				}
				for _, other := range []string{" ", "\n"} {
					var p1, p2 strings.Builder
					for i, x := range idx {
						t := gen.T[x]
						if i > 0 {
							if t == "(" || t == "[" {
								if operandEnd[gen.T[idx[i-1]]] {
									p2.WriteString(" ;")
								}
								p1.WriteString("\n")
								p2.WriteString("\n")
							} else {
								p1.WriteString(other)
								p2.WriteString(other)
							}
						}
						p1.WriteString(t)
						p2.WriteString(t)
					}
					src, src2 := p1.String(), p2.String()
					c.Cur(src)
					c.Inc("smart_token_sequences")
					for _, tol := range []bool{false, true} {
						kd, d, ok := c13Same(src, Mode{Tolerant: tol, Smart: true}, src2, Mode{Tolerant: tol})
						if ok {
							viol("C", kd, d, src, src2, L)
						} else {
							c.Inc("smart_reference_rejected")
						}
					}
				}
				return true
			})
		}
	}
	// (A) tokens that span lines, followed on their last line by ( [ . or an operator
	for _, lit := range []string{"`l1\nl2`", "`\n`", "'a\\\nb'", "`a\n\n  b`"} {
		for _, t := range []string{"let c = %s[0]", "x = %s.length", "f(%s)[0]", "x = %s\n[0]", "x = %s + 1\n(a)", "g(%s)(b)", "x = [%s][0](1)", "x = a(%s, %s)\n(b)", "if (a) x = %s[0]\nelse y = %s", "x = %s\n(a)", "return %s[0]"} {
			if !c.Next() || c.Tick() {
				continue
			}
			src := strings.ReplaceAll(t, "%s", lit)
			c.Cur(src)
			c.Inc("inputs")
			c.Inc("multiline_token_texts")
			kd, d, acc := c13Modes(src)
			if acc {
				c.Inc("accepted_programs")
			}
			viol("A", kd, d, src, "", 30)
		}
	}
	// (A) scale family
	for i, sp := range gen.Scale(c.Thorough()) {
		if !c.Mine(int64(i)) || c.Tick() {
			continue
		}
		c.Cur(sp.Name)
		c.Inc("inputs")
		kd, d, acc := c13Modes(sp.Src)
		if acc {
			c.Inc("accepted_programs")
		}
		viol("A", kd, core.Short(d, 600), sp.Src, "", 1000+len(sp.Src))
	}
	// (A,B,C) statement families with layouts
	level, k := 1, 1
	if c.Thorough() {
		level, k = 2, 2
	}
	gaps := []string{"\n", "", " // c\n"}
	gen.Programs(level, func(prog []*gen.Node, name string) {
		if !c.Next() || c.Tick() {
			return
		}
		toks := gen.UnparseProgram(prog, false)
		kk := k
		if len(toks) > 40 && kk > 1 {
			kk = 1
		}
		def := gen.RenderDefault(toks)
		// (D) late parse: default layout, all-LF layout without semicolons, last closing brace missing
		for _, text := range []string{def, gen.Render(toks, func(int) string { return "\n" }, func(int) int { return 1 }), strings.TrimSuffix(def, "}")} {
			c.Inc("inputs")
			c.Inc("late_parse_cases")
			kd, d := c13Late(text)
			viol("D", kd, d, text, "", len(toks))
		}
		gen.Layouts(toks, kk, gaps, func(text string, devs []gen.Dev) {
			if c.Tick() {
				return
			}
			c.Cur(text)
			c.Inc("inputs")
			c.Inc("layout_texts")
			kd, d, acc := c13Modes(text)
			if acc {
				c.Inc("accepted_programs")
			}
			viol("A", kd, d, text, "", len(toks))
			// (C) smart semicolons: a ';' before every line-initial infix bracket
			if gen.HasLineInitialBracket(text) {
				p2, changed := c13InsertSemis(toks, devs)
				if p2 != "" {
					c.Inc("smart_cases")
					if changed {
						c.Inc("smart_cases_with_infix_bracket")
					}
					kd, d, ok := c13Same(text, Mode{Smart: true}, p2, Mode{})
					if ok {
						viol("C", kd, d, text, p2, len(toks))
					} else {
						c.Inc("smart_reference_rejected")
					}
				}
			}
		})
		// (B-i) two statements fused on one line: drop one optional semicolon without a line break
		for i, t := range toks {
			if !t.OptSemi || i+1 >= len(toks) || toks[i+1].Text == "}" {
				continue
			}
			nx := toks[i+1].Text
			if !c13NonContinuation(nx) || (i > 0 && toks[i-1].Text == "return") {
				continue // a bare `return` takes what follows on its line as its value
			}
			fused := gen.Render(toks, nil, func(j int) int {
				if j == i {
					return 2
				}
				return 0
			})
			c.Inc("inputs")
			c.Inc("fused_statement_cases")
			kd, d, ok := c13SameTol(fused, def)
			if ok {
				viol("Bi", kd, d, fused, def, len(toks))
			}
		}
		// (B-ii) trailing run of closing braces removed
		end := len(toks)
		for r := 1; end-r >= 0 && toks[end-r].Text == "}" && (toks[end-r].Role == "block}" || toks[end-r].Role == "body}"); r++ {
			// only when every removed brace closes a statement-level block (function declaration
			// bodies and blocks), not a function expression inside an unfinished expression
			open := gen.Render(toks[:end-r], nil, nil)
			if !c13StatementLevelTail(prog, r) {
				break
			}
			c.Inc("inputs")
			c.Inc("open_block_cases")
			kd, d, ok := c13SameTol(open, def)
			if ok {
				viol("Bii", kd, d, open, def, len(toks))
			}
			// the same with the last statement's semicolon missing as well (end of input ends it)
			if end-r-1 >= 0 && toks[end-r-1].OptSemi {
				open2 := gen.Render(toks[:end-r-1], nil, nil)
				c.Inc("inputs")
				c.Inc("open_block_cases")
				kd, d, ok := c13SameTol(open2, def)
				if ok {
					viol("Bii", kd, d, open2, def, len(toks))
				}
				// and with every statement on its own line, no semicolons at all
				open3 := gen.Render(toks[:end-r-1], nil, func(int) int { return 1 })
				c.Inc("inputs")
				c.Inc("open_block_cases")
				kd, d, ok = c13SameTol(open3, def)
				if ok {
					viol("Bii", kd, d, open3, def, len(toks))
				}
			}
		}
	})
}

// c13NonContinuation: tokens that cannot continue the previous expression on the same line.
func c13NonContinuation(t string) bool {
	switch t {
	case "let", "function", "return", "if", "while", "for", "{", "true", "false", "null":
		return true
	}
	c := t[0]
	return c >= 'a' && c <= 'z' || c >= '0' && c <= '9' || c == '\'' || c == '"'
}

// c13StatementLevelTail: the last r closing braces of the program all belong to statement-level
// constructs (block statements, function declarations, and bodies of if/while/for that are blocks).
func c13StatementLevelTail(prog []*gen.Node, r int) bool {
	depth := 0
	n := prog[len(prog)-1]
	for {
		switch n.K {
		case gen.SBlock:
			depth++
			if len(n.L) == 0 {
				return depth >= r
			}
			n = n.L[len(n.L)-1]
		case gen.SFunc:
			depth++
			if len(n.L) == 0 {
				return depth >= r
			}
			n = n.L[len(n.L)-1]
		case gen.SIf:
			if n.C != nil {
				n = n.C
			} else {
				n = n.B
			}
		case gen.SWhile:
			n = n.B
		case gen.SFor:
			n = n.D
		default:
			return depth >= r
		}
		if depth >= r {
			return true
		}
	}
}

// c13InsertSemis renders the layout again with a ';' in front of every line-initial INFIX bracket
// (the unparser knows each bracket's role). changed reports whether any was inserted.
func c13InsertSemis(toks []gen.Tok, devs []gen.Dev) (string, bool) {
	gap := map[int]string{}
	semi := map[int]int{}
	for _, d := range devs {
		if d.Semi != 0 {
			semi[d.Tok] = d.Semi
		} else {
			gap[d.Tok] = d.Gap
		}
	}
	changed := false
	// determine which tokens are line-initial in this layout
	lineInitial := func(i int) bool {
		if i == 0 {
			return false
		}
		g, ok := gap[i]
		if !ok {
			g = " "
		}
		if strings.Contains(g, "\n") {
			return true
		}
		// a dropped semicolon right before forces a line break
		return toks[i-1].OptSemi && semi[i-1] == 1
	}
	// previous token that is actually rendered (dropped semicolons are not)
	prevKept := func(i int) int {
		for j := i - 1; j >= 0; j-- {
			if toks[j].OptSemi && semi[j] != 0 {
				continue
			}
			return j
		}
		return -1
	}
	var nt []gen.Tok
	remap := map[int]int{}
	for i, t := range toks {
		if (t.Text == "(" || t.Text == "[") && lineInitial(i) && prevKept(i) >= 0 && gen.EndsExpression(toks[prevKept(i)]) {
			nt = append(nt, gen.Tok{Text: ";"})
			changed = true
		}
		remap[i] = len(nt)
		nt = append(nt, t)
	}
	text := gen.Render(nt, func(i int) string {
		for o, nidx := range remap {
			if nidx == i {
				if g, ok := gap[o]; ok {
					return g
				}
			}
		}
		return " "
	}, func(i int) int {
		for o, nidx := range remap {
			if nidx == i {
				return semi[o]
			}
		}
		return 0
	})
	return text, changed
}

func c13Replay(pl json.RawMessage) (string, []core.Violation) {
	var p c13Payload
	json.Unmarshal(pl, &p)
	out := fmt.Sprintf("clause %s source %q reference %q", p.Clause, p.Src, p.Src2)
	var k, d string
	switch p.Clause {
	case "E":
		var hist []int
		for _, f := range strings.Fields(strings.Trim(p.Src, "[]")) {
			var x int
			fmt.Sscan(f, &x)
			hist = append(hist, x)
		}
		k, d = c13OptHistory(hist)
	case "D":
		k, d = c13Late(p.Src)
	case "A":
		k, d, _ = c13Modes(p.Src)
	case "P":
		pbPlugLang = true
		k, d, _ = c13Modes(p.Src)
		pbPlugLang = false
	case "C":
		k, d, _ = c13Same(p.Src, Mode{Smart: true}, p.Src2, Mode{})
	default:
		k, d, _ = c13SameTol(p.Src, p.Src2)
	}
	if k != "" {
		return out, []core.Violation{{Kind: p.Clause + "-" + k, Case: fmt.Sprintf("%q", p.Src), Detail: d}}
	}
	return out, nil
}

func init() {
	core.Register(&core.PropSpec{
		ID: "C13", Level: "model_checking",
		Rule:     "mode product: every token sequence <= n (4 quick, 5 thorough) in space and LF layouts and every statement-family program (simple statements covering each ASI-relevant first token, compound forms with brace-less/block bodies, nested function expressions) in every layout with <= k deviations (k=1 quick, 2 thorough) is parsed in the 4 mode combinations: strict-accepted => tolerant yields the identical tree dump (positions, flags, comments) and no errors; without a line-initial ( or [ the smart flag changes nothing (tree, acceptance, error count); with one, smart == default on the text with ';' inserted before each line-initial INFIX bracket (prefix-position brackets unchanged); on rejected inputs tolerant reports the same first error as strict unless that error is a missing separator or an unclosed block; every fused statement pair (separator dropped, next token cannot continue) and every removal of a trailing run of statement-level closing braces is accepted by tolerant mode with the tree of the intact program. states = distinct states of the mode product (acceptance, error count and tree shape in each of the 4 modes), transitions = parses executed Added: clause B also in tolerant+smart mode; open blocks also without the last / without all semicolons; multi-line tokens followed by ( [ . in 11 templates x 4 literals; the scale family; every result also on long-lived builders that carry an unused language extension; clause E: every history of <= 4 option calls {WithTolerantMode(true|false), WithSmartSemicolon(true|false)} on a fresh builder (a parser built in the middle) gives the parser of the mode the last calls name, on 6 probes that tell the modes apart. Plugin language (round 12/13, clause P): the clause-A mode product on the subset extended by three plugin statement kinds parsed with ExpectToken / ParseStatement / ParseBlockStatement / ExpectSemicolonASI: all token sequences <= 3 (4) with a plugin keyword in two joinings, 400 programs in 4 layouts (blanks, a line break in every gap, separators by line break only, separators dropped). Added (round 14): clause C on token sequences - every sequence <= 3 (4 over the class alphabet; full alphabet in thorough) with a bracket that is not its first token, a line break in front of every such bracket, 2 layouts x strict/tolerant, against default mode on the text with a semicolon in front of every bracket that follows an identifier, literal, ) or ].",
		Assume:   []string{"bracket roles (infix vs prefix position) come from the harness unparser, cross-checked against goja by C02"},
		QuickSec: 400, ThorSec: 3000, Run: c13Run, Replay: c13Replay,
		Evals: "inputs", Nontriv: "accepted_programs", States: "distinct_mode_product_states", Trans: "mode_parses",
	})
}
