package props

import (
	"encoding/json"
	"fmt"
	"strings"

	"xmc/core"
	"xmc/gen"
	"xmc/ref"
)

// C06: pretty printing changes layout only, and is stable.
// The writer's deferred-whitespace machine is driven by the program universe: every program x every
// layout with <= k deviations (comments, blank lines, line breaks in every gap, dropped semicolons) x
// every option set.

type c06Payload struct {
	Src     string `json:"src"`
	Rebuilt bool   `json:"rebuilt_tokens,omitempty"`
}

func c06Options(all bool) []Cfg {
	var out []Cfg
	for ind := -1; ind <= 8; ind++ {
		for semi := 0; semi <= 1; semi++ {
			out = append(out, Cfg{Pretty: true, Indent: ind, Semi: semi})
		}
	}
	if all {
		return append(out, Cfg{Pretty: true, Indent: -2, Semi: -1})
	}
	return out
}

// the option sets on which re-parse and idempotence are checked in the quick tier
var c06Core = []Cfg{
	{Pretty: true, Indent: -2, Semi: -1}, {Pretty: true, Indent: 2, Semi: 0}, {Pretty: true, Indent: -1, Semi: 1},
	{Pretty: true, Indent: 0, Semi: 0}, {Pretty: true, Indent: 0, Semi: 1}, {Pretty: true, Indent: 8, Semi: 0}, {Pretty: true, Indent: -1, Semi: 0},
}

// stripLeading removes leading spaces and tabs of every line that does not start inside a literal.
func stripLeading(code string) string {
	lines := strings.Split(code, "\n")
	var lit byte // delimiter of the literal the current position is in (0: none, '/': comment)
	for i, ln := range lines {
		startsInside := lit != 0
		for j := 0; j < len(ln); j++ {
			ch := ln[j]
			switch {
			case lit == '/':
			case lit != 0:
				if ch == '\\' {
					j++
				} else if ch == lit {
					lit = 0
				}
			case ch == '"' || ch == '`' || ch == '\'':
				lit = ch
			case ch == '/' && j+1 < len(ln) && ln[j+1] == '/':
				lit = '/'
			}
		}
		if lit == '/' {
			lit = 0
		}
		if !startsInside {
			lines[i] = strings.TrimLeft(ln, " \t")
		}
	}
	return strings.Join(lines, "\n")
}

// dropTerminators deletes every ';' whose innermost open bracket is a brace (or none): the statement
// terminators. ok=false if the reference tokenizer cannot read the text.
func dropTerminators(code string) (string, int, bool) {
	toks, err := ref.Tokenize(code)
	if err != nil {
		return "", 0, false
	}
	var stack []byte
	var b strings.Builder
	last := 0
	n := 0
	for _, t := range toks {
		if t.Kind != ref.TPunct {
			continue
		}
		switch t.Text {
		case "(", "[", "{":
			stack = append(stack, t.Text[0])
		case ")", "]", "}":
			if len(stack) > 0 {
				stack = stack[:len(stack)-1]
			}
		case ";":
			if len(stack) == 0 || stack[len(stack)-1] == '{' {
				b.WriteString(code[last:t.Off])
				last = t.End
				n++
			}
		}
	}
	b.WriteString(code[last:])
	return b.String(), n, true
}

// rstripLines removes trailing blanks of every line outside literals (after deleting a ';' a line may
// end with the space that preceded a comment etc.; layout comparison ignores that)
func squeeze(code string) string {
	lines := strings.Split(code, "\n")
	for i := range lines {
		lines[i] = strings.TrimRight(lines[i], " \t")
	}
	return strings.Join(lines, "\n")
}

// measured by the worker (single-threaded): formatted outputs produced, and a sink for the writer-state
// abstraction (the default-option output text identifies the sequence of writer requests of the program)
var c06Formatted int64
var c06Sink func(out string)

func c06Check(src string, all bool) (kind, detail string, accepted bool) {
	o := parseMode(src, Mode{})
	if o.Panic != "" || o.Err != nil {
		return "", "", false
	}
	accepted = true
	compact := compileCfg(o.Prog, Cfg{})
	if compact.Panic != "" {
		return "panic", "compact: " + compact.Panic, true
	}
	core := c06Core
	if all {
		core = c06Options(true)
	}
	first := compileCfg(o.Prog, core[0])
	defer func() {
		if kind == "" {
			// the options relate outputs of ONE program: printing must not change the tree it prints, so
			// the first output is reproduced after all the others have been produced
			if again := compileCfg(o.Prog, core[0]); again.Code != first.Code {
				kind, detail = "repeated-compile-differs", fmt.Sprintf("%s: first output %q; the same tree compiled again after the other option sets %q", core[0], first.Code, again.Code)
			}
		}
	}()
	for ci, cfg := range core {
		p1 := compileCfg(o.Prog, cfg)
		c06Formatted += 2
		if ci == 0 && c06Sink != nil {
			c06Sink(p1.Code)
		}
		if p1.Panic != "" {
			return "panic", cfg.String() + ": " + p1.Panic, true
		}
		// (a) the formatted output parses to the same tree as the compact output
		o2 := parseMode(p1.Code, Mode{})
		if o2.Panic != "" {
			return "panic", "re-parse: " + o2.Panic, true
		}
		if o2.Err != nil {
			return "pretty-does-not-parse", fmt.Sprintf("%s output %q: %v", cfg, p1.Code, o2.Errs[0].Message), true
		}
		c2 := compileCfg(o2.Prog, Cfg{})
		if c2.Code != compact.Code {
			return "pretty-changes-tree", fmt.Sprintf("%s output %q parses to the program %q, the source to %q", cfg, p1.Code, c2.Code, compact.Code), true
		}
		if a, b := ref.XStmts(o2.Prog.Statements), ref.XStmts(o.Prog.Statements); a != b {
			return "pretty-changes-tree", fmt.Sprintf("%s output %q parses to %s, the source to %s", cfg, p1.Code, a, b), true
		}
		// (b) formatting the formatted output reproduces it
		p2 := compileCfg(o2.Prog, cfg)
		if p2.Code != p1.Code {
			return "not-idempotent", fmt.Sprintf("%s: formatted %q, formatted again %q", cfg, p1.Code, p2.Code), true
		}
	}
	// (c) indentation options change leading white space only; (d) the semicolon option changes
	// statement-terminating semicolons only
	var base [2]string
	for _, cfg := range c06Options(false) {
		p := compileCfg(o.Prog, cfg)
		c06Formatted++
		if p.Panic != "" {
			return "panic", cfg.String() + ": " + p.Panic, true
		}
		s := stripLeading(p.Code)
		if base[cfg.Semi] == "" {
			base[cfg.Semi] = "=" + s
		} else if base[cfg.Semi] != "="+s {
			return "indent-changes-more-than-leading-space", fmt.Sprintf("%s output %q differs from the tab-indented output beyond leading white space (%q vs %q)", cfg, p.Code, s, base[cfg.Semi][1:]), true
		}
	}
	withSemi, noSemi := base[1][1:], base[0][1:]
	a, na, ok1 := dropTerminators(withSemi)
	b, nb, ok2 := dropTerminators(noSemi)
	if ok1 && ok2 {
		if squeeze(a) != squeeze(b) {
			return "semicolon-option-changes-more", fmt.Sprintf("with semicolons %q, without %q: they differ beyond statement-terminating semicolons", withSemi, noSemi), true
		}
		if nb > na {
			return "semicolon-option-adds-semicolons", fmt.Sprintf("with semicolons %q, without %q", withSemi, noSemi), true
		}
	}
	return "", "", true
}

// multi-line literal statements (values must survive every indentation setting)
func c06LiteralStmts() []*gen.Node {
	tpls := []string{"`l1\n  l2  \nl3`", "`\n`", "`  \n\n  x`", "`a\\`b\n // not a comment\n;`", "`${a\n}`"}
	strs := []string{"\"a\\\nb\"", "'it''s'", "\" // not a comment\"", "'a;b'"}
	var out []*gen.Node
	for _, t := range tpls {
		out = append(out, gen.Ex(gen.T_(t)), gen.Let("x", gen.T_(t)), gen.Ex(gen.Ca(gen.I("f"), gen.T_(t), gen.I("a"))), gen.Ret(gen.T_(t)),
			gen.Ex(gen.Bi("+", gen.T_(t), gen.T_(t))))
	}
	for _, s := range strs {
		out = append(out, gen.Ex(gen.S(s)), gen.Let("x", gen.S(s)))
	}
	return out
}

func cloneAll(p []*gen.Node) []*gen.Node {
	out := make([]*gen.Node, len(p))
	for i, n := range p {
		out[i] = gen.Clone(n)
	}
	return out
}

// c06Interplay builds the literal/comment interplay family.
func c06Interplay(full bool) []string {
	A := []string{
		"x = `http://x`;", "x = `a\\`b`;", "x = \"//\";", "x = '\"';", "x = \"'\";", "x = '`';", "x = `\"`;", "x = `'`;", "x = a / b;",
		"// `", "// \"", "// '", "// it's `q` \"r\"", "// x\\", "// \\\\", "x = `C:\\\\`;", "x = \"\\\\\";", "x = `\\\\`;", "x = 'a\\'b';", "x = `${`}`;",
	}
	B := []string{
		"y = `p  \n  q  \n`;", "let v = `  \n\nz`;", "if (a) {\n  b;\n\n  c;\n}", "f(`k \n`, \"s\", `m\t\n `);",
	}
	wrap := []func(string) string{
		func(s string) string { return s },
		func(s string) string { return "function g() {\n" + s + "\n}" },
		func(s string) string { return "{\n{\n" + s + "\n}\n}" },
		func(s string) string { return "if (c) {\n" + s + "\n} else {\n" + s + "\n}" },
	}
	var out []string
	for _, w := range wrap {
		for _, b := range B {
			out = append(out, w(b))
			for _, a := range A {
				out = append(out, w(a+"\n"+b))
				if !strings.HasPrefix(a, "//") {
					out = append(out, w(a+" "+b))
				}
				out = append(out, w(b+"\n"+a+"\n"+b))
				if !full && len(out) > 4000 {
					continue
				}
				for _, a2 := range A {
					out = append(out, w(a+"\n"+a2+"\n"+b))
				}
			}
		}
	}
	return out
}

func c06Run(c *core.Ctx) {
	processWarmup(c)
	report := func(k, d, src string, size int) {
		if k == "" || !c.ShrinkOK(k) {
			return
		}
		pl, _ := json.Marshal(c06Payload{src, pbRebuildTokens})
		c.Violate(core.Violation{Kind: k, Case: fmt.Sprintf("%q", src), Detail: d, Payload: pl, Size: size})
	}
	all := c.Thorough()
	c06Sink = func(out string) {
		if c.Distinct("formatted_outputs", out) {
			c.Inc("distinct_formatted_outputs")
		}
	}
	defer func() { c.Count("formatted_outputs_checked", c06Formatted) }()
	// (1) all token sequences <= n, space and LF layouts
	n := 4
	if c.Thorough() {
		n = 5
	}
	for L := 1; L <= n; L++ {
		gen.EachSeq(len(gen.T), L, func(idx []int) bool {
			if !c.Next() {
				return true
			}
			if c.Tick() {
				return false
			}
			if L == 5 && !c02Prefilter(idx) {
				return true
			}
			for si, sep := range []string{" ", "\n"} {
				if si > 0 && L < 2 {
					continue
				}
				src := gen.Join(gen.T, idx, sep)
				c.Cur(src)
				c.Inc("inputs")
				k, d, acc := c06Check(src, all && L <= 4)
				if acc {
					c.Inc("accepted_programs")
				}
				if k != "" && c.ShrinkOK(k) {
					fails := func(x []int) bool { kk, _, _ := c06Check(gen.Join(gen.T, x, sep), false); return kk == k }
					sh := core.ShrinkSeq(append([]int{}, idx...), gen.Simpler, fails)
					s2 := gen.Join(gen.T, sh, sep)
					if kk, dd, _ := c06Check(s2, false); kk == k {
						d = dd
					} else {
						s2 = src
					}
					report(k, d, s2, len(sh))
				}
			}
			return true
		})
		if !c.Expired() {
			c.SetMax("token_length_completed", int64(L))
		}
	}
	// (2) statement families x layouts with <= k deviations
	level, k := 1, 1
	if c.Thorough() {
		level, k = 2, 2
	}
	gaps := []string{"\n", "", " // c\n", "\n\n", "\n\n\n// d\n\n", "\t", "\n\n\n// e\n"}
	runProg := func(prog []*gen.Node, kk int) {
		toks := gen.UnparseProgram(prog, false)
		if len(toks) > 36 && kk > 1 {
			kk = 1
		}
		gen.Layouts(toks, kk, gaps, func(text string, devs []gen.Dev) {
			if c.Tick() {
				return
			}
			c.Cur(text)
			c.Inc("inputs")
			c.Inc("layout_texts")
			kd, d, acc := c06Check(text, all && len(toks) <= 12)
			if acc {
				c.Inc("accepted_programs")
				if strings.Contains(text, "\n") {
					c.Inc("accepted_multiline_layouts")
				}
			}
			report(kd, d, text, len(toks)*4+len(devs))
			if acc && c.Count0()%31 == 0 && len(devs) > 0 {
				c.Sample(text)
			}
		})
	}
	gen.Programs(level, func(prog []*gen.Node, name string) {
		if !c.Next() || c.Tick() {
			return
		}
		c.Inc("family_programs")
		runProg(prog, k)
		// plugin-built tokens: the same program (layouts with <= 1 deviation) through builders whose token
		// interceptor rebuilds identifier and keyword tokens with NewTokenAt after next()
		pbRebuildTokens = true
		toks := gen.UnparseProgram(prog, false)
		gen.Layouts(toks, 1, gaps[:4], func(text string, devs []gen.Dev) {
			if c.Tick() {
				return
			}
			c.Cur(text)
			c.Inc("inputs")
			c.Inc("rebuilt_token_layouts")
			kd, d, _ := c06Check(text, false)
			if kd != "" {
				report("plugin-token-"+kd, "with a token interceptor that rebuilds identifier and keyword tokens through NewTokenAt after next(): "+d, text, len(toks)*4+len(devs)+2)
			}
		})
		pbRebuildTokens = false
	})
	// (2b) brace-less bodies that end in a closing brace or parenthesis of their own (function expressions,
	// object literals, calls with function arguments), in every compound position, followed by each core statement
	{
		fn := func(body ...*gen.Node) *gen.Node { return gen.F("", []string{"i"}, body...) }
		bodies := []func() *gen.Node{
			func() *gen.Node {
				return gen.Ex(gen.Ca(gen.Do(gen.I("l"), "forEach"), fn(gen.Ex(gen.Ca(gen.I("g"), gen.I("i"))))))
			},
			func() *gen.Node { return gen.Ex(gen.As("=", gen.I("x"), fn())) },
			func() *gen.Node { return gen.Ex(gen.As("=", gen.I("x"), gen.Ob(gen.I("k"), gen.N("1")))) },
			func() *gen.Node { return gen.Ex(gen.Ca(gen.I("f"), gen.Ob())) },
			func() *gen.Node { return gen.Ret(fn(gen.Ret(gen.I("i")))) },
			func() *gen.Node { return gen.Ex(gen.Po("++", gen.I("n"))) },
			func() *gen.Node { return gen.Ex(gen.As("+=", gen.I("x"), gen.Ar(gen.I("a")))) },
		}
		e := func() *gen.Node { return gen.Ex(gen.I("e")) }
		var progs [][]*gen.Node
		for _, b := range bodies {
			progs = append(progs,
				[]*gen.Node{gen.If(gen.I("c"), b(), e())},
				[]*gen.Node{gen.If(gen.I("c"), b(), b())},
				[]*gen.Node{gen.If(gen.I("c"), gen.Block(e()), b())},
				[]*gen.Node{gen.If(gen.I("c"), gen.If(gen.I("d"), b(), e()), e())},
				[]*gen.Node{gen.If(gen.I("c"), b(), gen.If(gen.I("d"), b(), nil))},
				[]*gen.Node{gen.While(gen.I("c"), b())},
				[]*gen.Node{gen.For(nil, nil, nil, b())},
				[]*gen.Node{gen.Func("h", nil, gen.If(gen.I("c"), b(), b()), b())},
			)
		}
		core := gen.CoreStmts()
		pi := 0
		for _, p := range progs {
			for ci := -1; ci < len(core); ci++ {
				pi++
				if !c.Next() || c.Tick() {
					continue
				}
				prog := p
				if ci >= 0 {
					prog = append(append([]*gen.Node{}, p...), gen.Clone(core[ci]))
				}
				c.Inc("braceless_body_programs")
				runProg(cloneAll(prog), 1)
			}
		}
	}
	// (2c) statement boundaries: after each kind of statement that ends without a terminator, EVERY expression
	// chain of depth <= 2 (3 thorough, representatives) as the next statement - whatever byte it starts with
	{
		firsts := []func() *gen.Node{
			func() *gen.Node { return gen.Let("d", gen.Ca(gen.I("load"))) },
			func() *gen.Node { return gen.Ex(gen.Po("++", gen.I("n"))) },
			func() *gen.Node { return gen.Ex(gen.I("a")) },
			func() *gen.Node { return gen.If(gen.I("c"), gen.Ex(gen.As("=", gen.I("x"), gen.I("b"))), nil) },
			func() *gen.Node { return gen.Ex(gen.As("=", gen.I("y"), gen.T_("`t`"))) },
		}
		maxDepth := 2
		if c.Thorough() {
			maxDepth = 3
		}
		for depth := 0; depth <= maxDepth; depth++ {
			hs := gen.Holes(c.Thorough() && depth < 3)
			gen.Chains(hs, gen.Leaves(), depth, true, func(e *gen.Node, name string) {
				if !c.Next() || c.Tick() {
					return
				}
				fs := firsts
				if depth >= 2 {
					fs = firsts[:2]
				}
				for _, f := range fs {
					c.Inc("boundary_chain_programs")
					runProg([]*gen.Node{f(), gen.Ex(gen.Clone(e))}, 0)
				}
				c.Inc("boundary_chain_programs")
				runProg([]*gen.Node{gen.Func("w", nil, gen.Ret(gen.I("v")), gen.Ex(gen.Clone(e)))}, 0)
			})
		}
	}
	// (3) multi-line literals, alone, after/before another statement, and inside nested blocks / functions
	lits := c06LiteralStmts()
	nest := gen.Nesters(false)
	for _, st := range lits {
		variants := [][]*gen.Node{{gen.Clone(st)}, {gen.Ex(gen.I("a")), gen.Clone(st)}, {gen.Clone(st), gen.Ex(gen.G(gen.I("a")))}}
		for _, nz := range nest {
			variants = append(variants, []*gen.Node{nz.Wrap([]*gen.Node{gen.Clone(st), gen.Ex(gen.I("z"))})})
			for _, nz2 := range nest[:3] {
				variants = append(variants, []*gen.Node{nz2.Wrap([]*gen.Node{nz.Wrap([]*gen.Node{gen.Clone(st)})})})
			}
		}
		for _, prog := range variants {
			if !c.Next() || c.Tick() {
				continue
			}
			c.Inc("literal_programs")
			runProg(prog, 1)
		}
	}
	// (3b) literal / comment interplay: one or two items that contain quote characters, comment markers or
	// escapes, followed by a statement whose layout is value-relevant (multi-line literal with trailing
	// blanks) or blank-line-relevant; at top level and nested
	for _, text := range c06Interplay(c.Thorough()) {
		if !c.Next() || c.Tick() {
			continue
		}
		c.Cur(text)
		c.Inc("inputs")
		c.Inc("interplay_texts")
		kd, d, acc := c06Check(text, all)
		if acc {
			c.Inc("accepted_programs")
			c.Inc("accepted_multiline_layouts")
		}
		report(kd, d, text, 200+len(text))
	}
	// (3e) multi-line literals line by line: every sequence of 2..3 (4 thorough) lines over a line alphabet
	// (plain, trailing blanks, a // inside, quotes of each kind, blank-only, tab), as a backtick string, as a
	// continued quoted string and as a quoted string with raw line breaks (no backtick anywhere in the program), in three statement places, top level and inside a function
	{
		lines := []string{"x", "x  ", "http://x", "http://x  ", "  ", "\"", "'", "// c \t", "a ' // \" "}
		maxL := 3
		if c.Thorough() {
			maxL = 4
		}
		n := 0
		for L := 2; L <= maxL; L++ {
			gen.EachSeq(len(lines), L, func(idx []int) bool {
				n++
				if !c.Mine(int64(n)) {
					return true
				}
				if c.Tick() {
					return false
				}
				var parts []string
				for _, x := range idx {
					parts = append(parts, lines[x])
				}
				tpl := "`" + strings.Join(parts, "\n") + "`"
				lits := []string{tpl}
				if !strings.Contains(tpl, "\"") {
					lits = append(lits, "\""+strings.Join(parts, "\\\n")+"\"")
					// the lexer also accepts a raw line break inside a quoted string: an accepted program like any other
					lits = append(lits, "\""+strings.Join(parts, "\n")+"\"")
				}
				if !strings.Contains(tpl, "'") {
					lits = append(lits, "'"+strings.Join(parts, "\n")+"'")
				}
				for _, lit := range lits {
					for _, src := range []string{
						"let page = " + lit + ";\nf(page);",
						"f(" + lit + ", a, " + lit + ");\ny;",
						"function g() {\n  if (a) {\n    return " + lit + " + b;\n  }\n  z;\n}",
					} {
						c.Cur(src)
						c.Inc("inputs")
						c.Inc("literal_line_programs")
						kd, d, acc := c06Check(src, false)
						if acc {
							c.Inc("accepted_programs")
						}
						report(kd, d, src, 60+len(src))
					}
				}
				return true
			})
		}
	}
	// (3d) identifier spellings
	for ii, name := range gen.Identifiers() {
		if !c.Mine(int64(ii)) || c.Tick() {
			continue
		}
		for _, src := range gen.IdentPrograms(name) {
			c.Cur(src)
			c.Inc("inputs")
			c.Inc("identifier_programs")
			kd, d, acc := c06Check(src, false)
			if acc {
				c.Inc("accepted_programs")
			}
			report(kd, d, src, 40)
		}
	}
	// (3c) scale family
	for i, sp := range gen.Scale(c.Thorough()) {
		if !c.Mine(int64(i)) || c.Tick() {
			continue
		}
		c.Cur(sp.Name)
		c.Inc("inputs")
		c.Inc("scale_programs")
		kd, d, acc := c06Check(sp.Src, false)
		if acc {
			c.Inc("accepted_programs")
		}
		if kd != "" && c.ShrinkOK(kd) {
			pl, _ := json.Marshal(c06Payload{Src: sp.Src})
			c.Violate(core.Violation{Kind: kd, Config: "scale", Case: sp.Name, Detail: core.Short(d, 700), Payload: pl, Size: 1000 + len(sp.Src)})
		}
	}
	// (4) expression chains as statements (implied parentheses, function/object literals in operands)
	depth := 2
	holes := gen.Holes(c.Thorough())
	for d := 1; d <= depth; d++ {
		gen.Chains(holes, gen.Leaves(), d, true, func(e *gen.Node, name string) {
			if !c.Next() || c.Tick() {
				return
			}
			c.Inc("expression_chains")
			toks := gen.UnparseProgram([]*gen.Node{gen.Ex(e), gen.Let("x", gen.Clone(e))}, false)
			for _, text := range []string{gen.RenderDefault(toks), gen.Render(toks, func(int) string { return "\n" }, nil)} {
				c.Cur(text)
				c.Inc("inputs")
				kd, dd, acc := c06Check(text, false)
				if acc {
					c.Inc("accepted_programs")
				}
				report(kd, dd, text, d*10)
			}
		})
	}
}

func c06Replay(pl json.RawMessage) (string, []core.Violation) {
	var p c06Payload
	json.Unmarshal(pl, &p)
	out := fmt.Sprintf("source %q", p.Src)
	pbRebuildTokens = p.Rebuilt
	defer func() { pbRebuildTokens = false }()
	if k, d, _ := c06Check(p.Src, true); k != "" {
		return out, []core.Violation{{Kind: k, Case: fmt.Sprintf("%q", p.Src), Detail: d}}
	}
	return out, nil
}

func init() {
	core.Register(&core.PropSpec{
		ID: "C06", Level: "model_checking",
		Rule:     "writer state machine driven by the program universe: ALL token sequences <= n (4 quick, 5 thorough) in space and LF layouts; the statement families in every layout with <= k deviations (k=1 quick, 2 thorough) over gaps {LF, none, comment, blank line, blank lines + comment, tab} and dropped semicolons (covers statements starting with ( [ - ++ backtick, brace-less if/else bodies, comments and blank lines in every gap); multi-line backtick and continued string literals alone, next to other statements and nested <= 2 deep in blocks/functions; every expression chain <= depth 2 as statement and initialiser. For every accepted program: (a) each formatted output re-parses and its compact form equals the compact output of the source (same tree incl. literal values and grouping), (b) formatting the formatted output again reproduces it byte for byte — on 7 option sets quick, all 21 thorough; (c) the outputs for all 10 indent units {tab, 0..8 spaces} are identical after stripping leading white space of lines that do not start inside a literal; (d) the with- and without-semicolon outputs are identical after deleting semicolons whose innermost open bracket is a brace or none, and the without-semicolon output has no more of them. states = distinct formatted outputs under the default options (each is one path through the writer's deferred-whitespace machine), transitions = formatted outputs produced and checked Added families: brace-less bodies ending in } or ) of their own (7 bodies x 8 compound positions x following statement); literal/comment interplay (items with quotes, //, escapes followed by value-relevant multi-line literals, top level and nested); the scale family. Plugin-built tokens (round 12): every family program in every layout with <= 1 deviation (4 gap kinds) again through builders whose token interceptor rebuilds identifier and keyword tokens with NewTokenAt after next(). Added (round 14): the line-by-line literal family also as quoted strings with raw line breaks.",
		Assume:   []string{"(d) uses the independent tokenizer R-tok to find statement-terminating semicolons", "trailing blanks at line ends are ignored when comparing the semicolon variants"},
		QuickSec: 300, ThorSec: 2400, Run: c06Run, Replay: c06Replay,
		Evals: "inputs", Nontriv: "accepted_multiline_layouts", States: "distinct_formatted_outputs", Trans: "formatted_outputs_checked",
	})
}
