package props

import (
	"fmt"
	"reflect"
	"runtime"
	"strings"
	"xmc/core"
	"xmc/ref"

	"github.com/xjslang/xjs/ast"
	"github.com/xjslang/xjs/compiler"
	"github.com/xjslang/xjs/lexer"
	"github.com/xjslang/xjs/parser"
	"github.com/xjslang/xjs/sourcemap"
	"github.com/xjslang/xjs/token"
)

// Mode is a parser mode combination.
type Mode struct{ Tolerant, Smart bool }

func (m Mode) String() string {
	s := "strict"
	if m.Tolerant {
		s = "tolerant"
	}
	if m.Smart {
		s += "+smart"
	}
	return s
}

var Modes = []Mode{{false, false}, {true, false}, {false, true}, {true, true}}

// pbRebuildTokens: every builder made by newPB carries a token interceptor that lets the base lexer read the
// lexeme with next() and then hands out a token of its own, rebuilt through the lexer's exported constructor
// NewTokenAt with the same type, literal and start (what a plugin does that retags or wraps tokens that way).
// Identifier and keyword tokens are rebuilt. Every oracle keeps its meaning: the rebuilt token stands for the
// same lexeme, so the token stream, and everything derived from it, has to be what the property says.
var pbRebuildTokens bool

func rebuildTokens(lb *lexer.Builder) {
	lb.UseTokenInterceptor(func(l *lexer.Lexer, next func() token.Token) token.Token {
		t := next()
		switch t.Type {
		case token.IDENT, token.LET, token.FUNCTION, token.IF, token.ELSE, token.WHILE, token.FOR, token.RETURN:
			return l.NewTokenAt(t.Type, t.Literal, t.Start.Line, t.Start.Column)
		}
		return t
	})
}

// pbPlugLang: every builder made by newPB is a builder of the plugin language (pluglang.go).
var pbPlugLang bool

func newPB(m Mode) *parser.Builder {
	pb := parser.NewBuilder(lexer.NewBuilder())
	if pbRebuildTokens {
		rebuildTokens(pb.LexerBuilder)
	}
	if pbPlugLang {
		plugLangStatements(pb, plugLangLexer(pb.LexerBuilder))
	}
	if m.Tolerant {
		pb.WithTolerantMode(true)
	}
	if m.Smart {
		pb.WithSmartSemicolon(true)
	}
	return pb
}

type ParseOut struct {
	Prog   *ast.Program
	Errs   []parser.ParserError
	Err    error
	Panic  string
	Parser *parser.Parser
}

func panicText(r any) string {
	buf := make([]byte, 2048)
	buf = buf[:runtime.Stack(buf, false)]
	// keep the frames inside xjs only, short
	var keep []string
	for _, ln := range strings.Split(string(buf), "\n") {
		if strings.Contains(ln, "xjslang/xjs") && !strings.Contains(ln, "\t") {
			keep = append(keep, strings.TrimSpace(ln))
			if len(keep) == 3 {
				break
			}
		}
	}
	return fmt.Sprintf("%v @ %s", r, strings.Join(keep, " < "))
}

func init() { ref.OnReturn = core.Beat }

func parseWith(pb *parser.Builder, src string) (o ParseOut) {
	defer core.Beat()
	defer func() {
		if r := recover(); r != nil {
			o.Panic = panicText(r)
		}
	}()
	p := pb.Build(src)
	o.Parser = p
	o.Prog, o.Err = p.ParseProgram()
	o.Errs = p.Errors()
	return
}

func parseMode(src string, m Mode) ParseOut { return parseWith(newPB(m), src) }

// Cfg is an output configuration.
type Cfg struct {
	Pretty bool
	Indent int // -2: no indent option; -1: tabs; n>=0: WithSpaces(n)
	Semi   int // -1: no option; 0/1: WithSemi
	Map    bool
}

func (c Cfg) String() string {
	if !c.Pretty {
		if c.Map {
			return "compact+map"
		}
		return "compact"
	}
	s := "pretty("
	switch {
	case c.Indent == -2:
		s += "default"
	case c.Indent == -1:
		s += "tab"
	default:
		s += fmt.Sprintf("sp%d", c.Indent)
	}
	switch c.Semi {
	case 0:
		s += ",nosemi"
	case 1:
		s += ",semi"
	}
	s += ")"
	if c.Map {
		s += "+map"
	}
	return s
}

func (c Cfg) Build() *compiler.Compiler {
	k := compiler.New()
	if c.Pretty {
		var opts []compiler.PrettyPrintOption
		switch {
		case c.Indent == -1:
			opts = append(opts, compiler.WithTabs())
		case c.Indent >= 0:
			opts = append(opts, compiler.WithSpaces(c.Indent))
		}
		if c.Semi >= 0 {
			opts = append(opts, compiler.WithSemi(c.Semi == 1))
		}
		k = k.WithPrettyPrint(opts...)
	}
	if c.Map {
		k = k.WithSourceMap()
	}
	return k
}

// Cfgs returns the output configurations: a representative set (quick) or all of them.
func Cfgs(all bool, withMap bool) []Cfg {
	var out []Cfg
	add := func(c Cfg) {
		out = append(out, c)
		if withMap {
			c.Map = true
			out = append(out, c)
		}
	}
	add(Cfg{})
	if !all {
		add(Cfg{Pretty: true, Indent: -2, Semi: -1})
		add(Cfg{Pretty: true, Indent: 2, Semi: 0})
		add(Cfg{Pretty: true, Indent: -1, Semi: 1})
		add(Cfg{Pretty: true, Indent: 4, Semi: 0})
		return out
	}
	add(Cfg{Pretty: true, Indent: -2, Semi: -1})
	for ind := -1; ind <= 8; ind++ {
		for semi := 0; semi <= 1; semi++ {
			add(Cfg{Pretty: true, Indent: ind, Semi: semi})
		}
	}
	return out
}

type CompOut struct {
	Code  string
	Map   *sourcemap.SourceMap
	Panic string
}

func compileCfg(prog *ast.Program, c Cfg) (o CompOut) {
	defer core.Beat()
	defer func() {
		if r := recover(); r != nil {
			o.Panic = panicText(r)
		}
	}()
	r := c.Build().Compile(prog)
	o.Code, o.Map = r.Code, r.SourceMap
	return
}

// ---- reflective tree checks

var optionalField = map[string]bool{
	"LetStatement.Value": true, "ReturnStatement.ReturnValue": true, "IfStatement.ElseBranch": true,
	"ForStatement.Init": true, "ForStatement.Condition": true, "ForStatement.Update": true,
	"FunctionExpression.Name": true, "LetExpression.Value": true,
}

func isNilValue(v reflect.Value) bool {
	switch v.Kind() {
	case reflect.Ptr, reflect.Interface, reflect.Map, reflect.Func:
		return v.IsNil()
	}
	return false
}

// treeNilCheck walks the tree reflectively. It reports nil / typed-nil entries of any statement or
// expression list (always), and nil mandatory children (only when strict).
func treeNilCheck(root any, strict bool) (kind, detail string) {
	var walk func(v reflect.Value, path string, depth int) bool
	walk = func(v reflect.Value, path string, depth int) bool {
		if depth > 200 {
			return true
		}
		switch v.Kind() {
		case reflect.Interface, reflect.Ptr:
			if v.IsNil() {
				return true
			}
			return walk(v.Elem(), path, depth+1)
		case reflect.Slice:
			for i := 0; i < v.Len(); i++ {
				e := v.Index(i)
				p := fmt.Sprintf("%s[%d]", path, i)
				if isNilValue(e) || (e.Kind() == reflect.Interface && isNilValue(e.Elem())) {
					if strings.HasSuffix(path, "Statements") {
						kind, detail = "nil-statement", p+" is nil"
						return false
					}
					if strict {
						kind, detail = "nil-child", p+" is nil"
						return false
					}
					continue
				}
				if !walk(e, p, depth+1) {
					return false
				}
			}
		case reflect.Struct:
			t := v.Type()
			if t.PkgPath() != "github.com/xjslang/xjs/ast" {
				return true
			}
			for i := 0; i < v.NumField(); i++ {
				f := t.Field(i)
				if !f.IsExported() {
					continue
				}
				fv := v.Field(i)
				p := path + "." + f.Name
				switch fv.Kind() {
				case reflect.Interface, reflect.Ptr:
					null := fv.IsNil() || (fv.Kind() == reflect.Interface && isNilValue(fv.Elem()))
					if null {
						if strict && !optionalField[t.Name()+"."+f.Name] {
							kind, detail = "nil-child", p+" is nil"
							return false
						}
						continue
					}
				}
				if !walk(fv, p, depth+1) {
					return false
				}
			}
		}
		return true
	}
	walk(reflect.ValueOf(root), "Program", 0)
	return
}

// dumpTree renders a tree with every exported field (token positions, flags, comments included),
// without pointer addresses: used to compare trees for identity.
func dumpTree(root any) string {
	var b strings.Builder
	var walk func(v reflect.Value, depth int)
	walk = func(v reflect.Value, depth int) {
		if depth > 300 {
			b.WriteString("<deep>")
			return
		}
		switch v.Kind() {
		case reflect.Interface, reflect.Ptr:
			if v.IsNil() {
				b.WriteString("nil")
				return
			}
			walk(v.Elem(), depth+1)
		case reflect.Slice:
			b.WriteByte('[')
			for i := 0; i < v.Len(); i++ {
				if i > 0 {
					b.WriteByte(' ')
				}
				walk(v.Index(i), depth+1)
			}
			b.WriteByte(']')
		case reflect.Struct:
			t := v.Type()
			b.WriteString(t.Name())
			b.WriteByte('{')
			for i := 0; i < v.NumField(); i++ {
				if !t.Field(i).IsExported() {
					continue
				}
				b.WriteString(t.Field(i).Name)
				b.WriteByte(':')
				walk(v.Field(i), depth+1)
				b.WriteByte(' ')
			}
			b.WriteByte('}')
		case reflect.String:
			fmt.Fprintf(&b, "%q", v.String())
		default:
			fmt.Fprintf(&b, "%v", v.Interface())
		}
	}
	walk(reflect.ValueOf(root), 0)
	return b.String()
}

// processWarmup uses differently configured builders, parsers and compilers once (smart / tolerant modes,
// plugin operators on custom and built-in tokens registered in every role combination, interceptors, pretty
// printing with source map). The properties quantify over programs for ANY history of other instances in the
// same process; running this first makes every enumeration of a worker a "non-initial state" exploration:
// state leaking from another configuration changes what the reference comparison sees.
func processWarmup(c *core.Ctx) {
	defer func() { recover() }()
	for _, m := range Modes {
		for _, src := range []string{"a\n(b)\n[c]", "let x = 1 let y = 2", "{ a", "x = `t`\n++y // c"} {
			c.Cur(fmt.Sprintf("warm-up: %q in mode %s", src, m))
			parseMode(src, m)
		}
	}
	type role struct{ pre, in, post bool }
	for _, r := range []role{{false, false, true}, {false, true, false}, {true, false, false}, {true, false, true}, {true, true, false}} {
		for _, bt := range []token.Type{token.ILLEGAL, token.NOT, token.MODULO} {
			builtin := bt != token.ILLEGAL
			lb := lexer.NewBuilder()
			ty := lb.RegisterTokenType("warm")
			if builtin {
				ty = bt // a built-in token: a unary operator token, a binary operator token (occupied roles are refused)
			} else {
				lb.UseTokenInterceptor(func(l *lexer.Lexer, next func() token.Token) token.Token {
					t := next()
					if t.Type == token.IDENT && t.Literal == "W" {
						t.Type = ty
					}
					return t
				})
			}
			pb := parser.NewBuilder(lb).WithSmartSemicolon(true)
			if r.pre {
				pb.RegisterPrefixOperator(ty, func(tok token.Token, right func() ast.Expression) ast.Expression { return right() })
			}
			if r.in {
				pb.RegisterInfixOperator(ty, parser.SUM, func(tok token.Token, left ast.Expression, right func() ast.Expression) ast.Expression {
					right()
					return left
				})
			}
			if r.post {
				pb.RegisterPostfixOperator(ty, func(tok token.Token, left ast.Expression) ast.Expression { return left })
			}
			pb.UseStatementInterceptor(func(p *parser.Parser, next func() ast.Statement) ast.Statement { return next() })
			for _, src := range []string{"a W b; W a; a W", "a ! b; a !", "a % b; a %; a * b %", "f(a)\n(b)"} {
				c.Cur(fmt.Sprintf("warm-up: %q with a plugin token (prefix=%v infix=%v postfix=%v, built-in token=%v)", src, r.pre, r.in, r.post, builtin))
				o := parseWith(pb, src)
				if o.Prog != nil && o.Err == nil {
					compileCfg(o.Prog, Cfg{Pretty: true, Indent: 0, Semi: 0, Map: true})
				}
			}
			// a plain parser right after each plugin configuration (state must not have leaked)
			for _, src := range []string{"a !b", "a W b", "! a ! b", "a * b % c"} {
				c.Cur(fmt.Sprintf("warm-up: plain parser on %q after a plugin builder (prefix=%v infix=%v postfix=%v, built-in token=%v) was built", src, r.pre, r.in, r.post, builtin))
				parseMode(src, Mode{})
			}
		}
	}
}

// mutableRefs collects the addresses of everything mutable that is reachable from a tree through exported
// and unexported fields alike: backing arrays of slices with capacity, maps, and the structs that pointers
// lead to. (String data is immutable and does not count.)
func mutableRefs(root any, f func(addr uintptr, what string) bool) {
	seen := map[uintptr]bool{}
	var walk func(v reflect.Value, path string, depth int) bool
	walk = func(v reflect.Value, path string, depth int) bool {
		if depth > 400 {
			return true
		}
		switch v.Kind() {
		case reflect.Interface:
			if v.IsNil() {
				return true
			}
			return walk(v.Elem(), path, depth+1)
		case reflect.Ptr:
			if v.IsNil() {
				return true
			}
			p := v.Pointer()
			if seen[p] {
				return true
			}
			seen[p] = true
			if v.Elem().Kind() == reflect.Struct && v.Elem().Type().Size() > 0 {
				if !f(p, path+"(*"+v.Elem().Type().Name()+")") {
					return false
				}
			}
			return walk(v.Elem(), path, depth+1)
		case reflect.Slice:
			if v.Cap() > 0 {
				if !f(v.Pointer(), path+"[] (backing array of "+v.Type().String()+")") {
					return false
				}
			}
			for i := 0; i < v.Len(); i++ {
				if !walk(v.Index(i), fmt.Sprintf("%s[%d]", path, i), depth+1) {
					return false
				}
			}
		case reflect.Map:
			if !v.IsNil() {
				if !f(v.Pointer(), path+" (map)") {
					return false
				}
			}
		case reflect.Struct:
			t := v.Type()
			for i := 0; i < v.NumField(); i++ {
				if !walk(v.Field(i), path+"."+t.Field(i).Name, depth+1) {
					return false
				}
			}
		}
		return true
	}
	walk(reflect.ValueOf(root), "", 0)
}

// sharedMutable reports the first piece of mutable memory that two results of INDEPENDENT instances have in
// common ("" if they are separate).
func sharedMutable(a, b any) string {
	refs := map[uintptr]string{}
	mutableRefs(a, func(p uintptr, what string) bool { refs[p] = what; return true })
	found := ""
	mutableRefs(b, func(p uintptr, what string) bool {
		if w, ok := refs[p]; ok {
			found = fmt.Sprintf("%s of the second result is the same memory as %s of the first", what, w)
			return false
		}
		return true
	})
	return found
}
