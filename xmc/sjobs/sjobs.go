// Package sjobs defines the concurrent scenarios of C14: small parse/compile jobs over distinct or shared
// builders, trees and compilers. The same job bodies are run (a) under the cooperative scheduler on the
// overlay-instrumented library (cmd/sched), (b) free-running under the race detector (cmd/racep).
package sjobs

import (
	"fmt"
	"reflect"
	"strings"

	"github.com/xjslang/xjs/ast"
	"github.com/xjslang/xjs/compiler"
	"github.com/xjslang/xjs/debug"
	"github.com/xjslang/xjs/lexer"
	"github.com/xjslang/xjs/parser"
	"github.com/xjslang/xjs/token"
)

// Scenario builds fresh objects and returns the jobs that share them (or not).
type Scenario struct {
	Name string
	Make func() []func() string
}

// ctxMark records what the parser answered about its context when the statement was parsed.
type ctxMark struct {
	ctx   int
	inFn  bool
	inner ast.Statement
}

func (m *ctxMark) WriteTo(cw *ast.CodeWriter) {
	cw.WriteString(fmt.Sprintf("[ctx%d,%v]", m.ctx, m.inFn))
	m.inner.WriteTo(cw)
}

// noLog: install the interceptors, but stateless (for builders shared between jobs)
var noLog []string

type plugNode struct {
	kind string
	tok  token.Token
	l, r ast.Expression
}

func (n *plugNode) WriteTo(cw *ast.CodeWriter) {
	cw.WriteString(n.kind + "(")
	if n.l != nil {
		n.l.WriteTo(cw)
	}
	if n.r != nil {
		cw.WriteRune(',')
		n.r.WriteTo(cw)
	}
	cw.WriteRune(')')
}
func (n *plugNode) Precedence() int { return ast.PrecedenceAtomic }

// builder with plugin operators: spelling -> role
func pluginBuilder(infix map[string]int, prefix, postfix []string, stmtLog *[]string) *parser.Builder {
	lb := lexer.NewBuilder()
	types := map[string]token.Type{}
	for s := range infix {
		types[s] = lb.RegisterTokenType(s)
	}
	for _, s := range prefix {
		types[s] = lb.RegisterTokenType(s)
	}
	for _, s := range postfix {
		types[s] = lb.RegisterTokenType(s)
	}
	lb.UseTokenInterceptor(func(l *lexer.Lexer, next func() token.Token) token.Token {
		t := next()
		if t.Type == token.IDENT {
			if ty, ok := types[t.Literal]; ok {
				t.Type = ty
			}
		}
		return t
	})
	pb := parser.NewBuilder(lb)
	for s, lvl := range infix {
		pb.RegisterInfixOperator(types[s], lvl, func(tok token.Token, left ast.Expression, right func() ast.Expression) ast.Expression {
			return &plugNode{kind: "in_" + tok.Literal, tok: tok, l: left, r: right()}
		})
	}
	for _, s := range prefix {
		pb.RegisterPrefixOperator(types[s], func(tok token.Token, right func() ast.Expression) ast.Expression {
			return &plugNode{kind: "pre_" + tok.Literal, tok: tok, r: right()}
		})
	}
	for _, s := range postfix {
		pb.RegisterPostfixOperator(types[s], func(tok token.Token, left ast.Expression) ast.Expression {
			return &plugNode{kind: "post_" + tok.Literal, tok: tok, l: left}
		})
	}
	if stmtLog != nil {
		pb.UseStatementInterceptor(func(p *parser.Parser, next func() ast.Statement) ast.Statement {
			if stmtLog != &noLog {
				*stmtLog = append(*stmtLog, p.CurrentToken.Literal)
				return next()
			}
			// shared builder: no harness state; the parser's context answers become part of the tree
			ctx, inFn := int(p.CurrentContext()), p.IsInFunction()
			st := next()
			if st == nil || reflect.ValueOf(st).IsNil() {
				return st
			}
			return &ctxMark{ctx: ctx, inFn: inFn, inner: st}
		})
		pb.UseExpressionInterceptor(func(p *parser.Parser, next func() ast.Expression) ast.Expression {
			return p.ParseRemainingExpression(p.ParsePrefixExpression())
		})
	}
	return pb
}

func show(r compiler.CompileResult) string {
	s := r.Code
	if r.SourceMap != nil {
		s += "|" + r.SourceMap.Mappings + "|" + strings.Join(r.SourceMap.Names, ",")
	}
	return s
}

func parseShow(pb *parser.Builder, src string) (*ast.Program, string) {
	p := pb.Build(src)
	prog, err := p.ParseProgram()
	var es []string
	for _, e := range p.Errors() {
		es = append(es, fmt.Sprintf("%s@%v", e.Message, e.Range))
	}
	return prog, fmt.Sprintf("err=%v errors=%v ctx=%d infn=%v", err != nil, es, p.CurrentContext(), p.IsInFunction())
}

var (
	srcA = "let r = a OP b * c; f(`t`, 'q')\n// tail"
	srcB = "x = - - y\n(g)(1)\n// c\nreturn"
	srcC = "PRE n BANG + 1; if (n) m BANG"
	srcD = "function f(a) { if (a) { return - -a } // c\n return [a, {k: `t`}] }\nlet z = f(1) + 2"
	srcE = "for (let i = 0; i < 2; i++) { w += i }"
)

func jobA() func() string {
	return func() string {
		var log []string
		pb := pluginBuilder(map[string]int{"OP": parser.PRODUCT + 1}, nil, nil, &log)
		prog, s := parseShow(pb, srcA)
		return s + " log=" + strings.Join(log, ",") + " => " + show(compiler.New().WithPrettyPrint(compiler.WithSpaces(4), compiler.WithSemi(false)).WithSourceMap().Compile(prog))
	}
}

func jobB() func() string {
	return func() string {
		pb := parser.NewBuilder(lexer.NewBuilder()).WithTolerantMode(true).WithSmartSemicolon(true)
		prog, s := parseShow(pb, srcB)
		return s + " => " + show(compiler.New().WithSourceMap().Compile(prog)) + " str=" + debug.ToString(prog)
	}
}

func jobC() func() string {
	return func() string {
		pb := pluginBuilder(nil, []string{"PRE"}, []string{"BANG"}, nil)
		prog, s := parseShow(pb, srcC)
		return s + " => " + show(compiler.New().WithPrettyPrint().Compile(prog))
	}
}

// Tiny switches all scenario inputs to one-expression programs (few scheduling points, so that the finest
// granularity can be explored to a higher preemption bound).
func Tiny() {
	srcA, srcB, srcC, srcD, srcE = "a OP b", "x = - - y", "n BANG", "f(- -a)", "w += 1"
	s2in = [3]string{"{ a OP b }", "function f() { PRE x }", "{ { q BANG } }"}
	s4third = "k"
}

// Alt switches all scenario inputs to programs of the same shapes with different identifier spellings,
// literals and comments (used to see whether package-level state depends on what was processed).
func Alt() {
	srcA = "let result = alpha OP beta * gamma; callee(`tpl`, 'quoted')\n// trailing note"
	srcB = "total = - - delta\n(handler)(42)\n// remark\nreturn"
	srcC = "PRE count BANG + 17; if (count) other BANG"
	srcD = "function compute(value) { if (value) { return - -value } // why\n return [value, {key: `text`}] }\nlet answer = compute(9) + 33"
	srcE = "for (let index = 10; index < 12; index++) { weight += index }"
	s2in = [3]string{"alpha OP beta * gamma; { function inner() { return alpha } }", "PRE item BANG; { item2; { item3 } }", "let queue = [7, 8] OP 9; callee(function() { { inner2 } })"}
	s4third = "omega = sigma + lambda"
}

var s2in = [3]string{"a OP b * c; { function f() { return a } }", "PRE x BANG; { y; { z } }", "let q = [1, 2] OP 3; f(function() { { w } })"}
var s4third = "alpha = beta + gamma"

// Scenarios returns all scenarios with n jobs each (2 or 3).
func Scenarios(n int) []Scenario {
	take := func(js []func() string) []func() string { return js[:n] }
	return []Scenario{
		{"S1-distinct-builders", func() []func() string { return take([]func() string{jobA(), jobB(), jobC()}) }},
		{"S2-shared-parser-builder", func() []func() string {
			pb := pluginBuilder(map[string]int{"OP": parser.SUM}, []string{"PRE"}, []string{"BANG"}, &noLog)
			mk := func(src string) func() string {
				return func() string {
					prog, s := parseShow(pb, src)
					return s + " => " + show(compiler.New().Compile(prog))
				}
			}
			return take([]func() string{mk(s2in[0]), mk(s2in[1]), mk(s2in[2])})
		}},
		{"S3-shared-tree", func() []func() string {
			prog, _ := parseShow(parser.NewBuilder(lexer.NewBuilder()), srcD)
			return take([]func() string{
				func() string { return show(compiler.New().WithSourceMap().Compile(prog)) },
				func() string {
					return show(compiler.New().WithPrettyPrint(compiler.WithTabs()).WithSourceMap().Compile(prog))
				},
				func() string { return debug.ToString(prog) },
			})
		}},
		{"S4-shared-compiler", func() []func() string {
			k := compiler.New().WithPrettyPrint(compiler.WithSpaces(3)).WithSourceMap()
			mk := func(src string) func() string {
				prog, _ := parseShow(parser.NewBuilder(lexer.NewBuilder()), src)
				return func() string { return show(k.Compile(prog)) }
			}
			return take([]func() string{mk(srcD), mk(srcE), mk(s4third)})
		}},
	}
}
