package main

import (
	"fmt"
	"os"

	"github.com/xjslang/xjs/compiler"
	"github.com/xjslang/xjs/lexer"
	"github.com/xjslang/xjs/parser"
)

func main() {
	src := os.Args[1]
	p := parser.NewBuilder(lexer.NewBuilder()).Build(src)
	prog, err := p.ParseProgram()
	fmt.Println("err:", err)
	c := compiler.New().WithPrettyPrint().Compile(prog).Code
	fmt.Printf("pretty: %q\n", c)
	p2 := parser.NewBuilder(lexer.NewBuilder()).Build(c)
	prog2, err2 := p2.ParseProgram()
	fmt.Println("err2:", err2)
	fmt.Printf("pretty2: %q\n", compiler.New().WithPrettyPrint().Compile(prog2).Code)
	fmt.Printf("compact: %q\n", compiler.New().Compile(prog).Code)
}
