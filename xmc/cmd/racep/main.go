// racep: the C14 scenario jobs running free on real goroutines, meant to be built with -race. This is the
// declared complement of the schedule explorer (whose hand-offs are happens-before edges that blind the
// detector): it is sampling, it decides nothing on its own, it only adds race reports.
// usage: racep <iterations>     exit 0 ok, 1 result mismatch, 66 race reported by the detector
package main

import (
	"fmt"
	"os"
	"strconv"
	"sync"

	"xmc/sjobs"
)

func main() {
	iters, _ := strconv.Atoi(os.Args[1])
	bad := 0
	var mu sync.Mutex
	for _, sc := range sjobs.Scenarios(3) {
		var solo []string
		for i := 0; i < 3; i++ {
			solo = append(solo, sc.Make()[i]())
		}
		var wg sync.WaitGroup
		// 5 instances x 3 jobs = 15 goroutines + main = 16
		for inst := 0; inst < 5; inst++ {
			wg.Add(1)
			go func() {
				defer wg.Done()
				for it := 0; it < iters; it++ {
					jobs := sc.Make()
					var w2 sync.WaitGroup
					res := make([]string, len(jobs))
					for i, j := range jobs {
						w2.Add(1)
						go func(i int, j func() string) {
							defer w2.Done()
							res[i] = j()
						}(i, j)
					}
					w2.Wait()
					for i := range res {
						if res[i] != solo[i] {
							mu.Lock()
							if bad < 5 {
								fmt.Printf("MISMATCH scenario=%s job=%d got=%q alone=%q\n", sc.Name, i, res[i], solo[i])
							}
							bad++
							mu.Unlock()
						}
					}
				}
			}()
		}
		wg.Wait()
	}
	fmt.Printf("racep: iterations=%d mismatches=%d\n", iters, bad)
	if bad > 0 {
		os.Exit(1)
	}
}
