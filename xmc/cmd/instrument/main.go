// instrument <repo> <outdir>: writes the schedule-explorer overlay (see xmc/instr).
package main

import (
	"encoding/json"
	"fmt"
	"os"

	"xmc/instr"
)

func main() {
	st, ov, err := instr.Instrument(os.Args[1], os.Args[2])
	if err != nil {
		fmt.Fprintln(os.Stderr, err)
		os.Exit(1)
	}
	b, _ := json.MarshalIndent(st, "", " ")
	fmt.Println(string(b))
	fmt.Println(ov)
}
