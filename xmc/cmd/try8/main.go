package main

import (
	"fmt"
	"os"

	"xmc/props"
)

func main() { fmt.Println(props.C08Try(os.Args[1])) }
