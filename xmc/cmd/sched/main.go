//go:build xmcsched

// sched: cooperative scheduler + preemption-bounded DFS (iterative context bounding) over the
// overlay-instrumented xjs library. Built by the C14 check with
//
//	go build -tags xmcsched -overlay <overlay.json> ./cmd/sched
//
// usage: sched <scenario-index> <jobs> <bound> <shard> <nshards> <deadline-seconds>   -> one JSON line
//
//	sched replay <scenario-index> <jobs> <c0,c1,...>
package main

import (
	"encoding/json"
	"fmt"
	"os"
	"sort"
	"strconv"
	"strings"
	"time"

	"github.com/xjslang/xjs/verifhook"

	"xmc/sjobs"
)

type thread struct {
	id   int
	wake chan struct{}
	done bool
	res  string
	pan  string
}

type point struct {
	runningEnabled bool
	enabled        []int // canonical: the running thread first if still enabled, then ascending ids
	choice         int
	label          string
}

type accessRec struct {
	thread int
	v      string
	kind   byte
}

type exec struct {
	threads []*thread
	points  []point
	back    chan struct{}
	log     []accessRec
	stuck   bool
	diverge bool
}

var (
	curExec   *exec
	curThread *thread // the job thread that is running (exactly one runs at a time); nil outside jobs
	lastLabel string
)

// granularity of scheduling points: 0 = accesses to package-level variables only, 1 = + stores through
// selectors / indexes / pointers, 2 = + function and closure entries
var granularity = 2

func yieldY(label string) {
	if granularity == 0 {
		return
	}
	if granularity == 1 && !strings.HasSuffix(label, "#store") {
		return
	}
	yield(label)
}

func yield(label string) {
	t := curThread
	if t == nil {
		return // set-up code and solo runs are not scheduled
	}
	lastLabel = label
	curExec.back <- struct{}{}
	<-t.wake
	curThread = t
}

func access(v string, kind byte) {
	if t := curThread; t != nil {
		curExec.log = append(curExec.log, accessRec{t.id, v, kind})
	}
	yield("global:" + v)
}

// run executes the jobs under the schedule prefix (then always choice 0: keep running the current thread).
func run(jobs []func() string, prefix []int) *exec {
	e := &exec{back: make(chan struct{})}
	curExec = e
	for i, j := range jobs {
		t := &thread{id: i, wake: make(chan struct{})}
		e.threads = append(e.threads, t)
		go func(t *thread, j func() string) {
			<-t.wake
			curThread = t
			func() {
				defer func() {
					if r := recover(); r != nil {
						t.pan = fmt.Sprint(r)
					}
				}()
				t.res = j()
			}()
			t.done = true
			curThread = nil
			e.back <- struct{}{}
		}(t, j)
	}
	running := -1
	for {
		var en []int
		if running >= 0 && !e.threads[running].done {
			en = append(en, running)
		}
		for _, t := range e.threads {
			if !t.done && t.id != running {
				en = append(en, t.id)
			}
		}
		if len(en) == 0 {
			return e
		}
		ch := 0
		if len(e.points) < len(prefix) {
			ch = prefix[len(e.points)]
			if ch >= len(en) {
				e.diverge = true // a replayed prefix must be reproducible: hard error
				return e
			}
		}
		e.points = append(e.points, point{runningEnabled: running >= 0 && !e.threads[running].done, enabled: en, choice: ch, label: lastLabel})
		running = en[ch]
		e.threads[running].wake <- struct{}{}
		select {
		case <-e.back:
		case <-time.After(5 * time.Second):
			e.stuck = true // the running thread blocked without reaching a scheduling point (real lock, sleep, ...)
			return e
		}
	}
}

type violation struct {
	Kind     string `json:"kind"`
	Scenario string `json:"scenario"`
	Jobs     int    `json:"jobs"`
	Schedule []int  `json:"schedule"`
	Detail   string `json:"detail"`
}

type result struct {
	Scenario    string         `json:"scenario"`
	Jobs        int            `json:"jobs"`
	Bound       int            `json:"bound"`
	Executions  int64          `json:"executions"`
	ByPreempt   map[string]int `json:"executions_by_preemptions"`
	Steps       int64          `json:"schedule_steps"`
	MaxPoints   int            `json:"max_points"`
	Outcomes    int            `json:"distinct_outcomes"`
	Violations  []violation    `json:"violations"`
	Races       []string       `json:"races"`
	SharedVars  []string       `json:"package_variables_touched_by_two_jobs"`
	Exhaustive  bool           `json:"exhaustive"`
	Why         string         `json:"why_not_exhaustive,omitempty"`
	Nondet      int            `json:"nondeterministic_replays"`
	GlobalsSeen []string       `json:"globals_seen"`
}

type explorer struct {
	sc       sjobs.Scenario
	njobs    int
	bound    int
	shard    int
	nshards  int
	deadline time.Time
	solo     []string
	res      result
	outcomes map[string]bool
	races    map[string]bool
	shared   map[string]bool
	globals  map[string]bool
	topIndex int
}

func (x *explorer) check(e *exec, prefix []int) {
	x.res.Executions++
	x.res.Steps += int64(len(e.points))
	if len(e.points) > x.res.MaxPoints {
		x.res.MaxPoints = len(e.points)
	}
	var out []string
	for i, t := range e.threads {
		got := t.res
		if t.pan != "" {
			got = "panic: " + t.pan
		}
		out = append(out, got)
		if got != x.solo[i] && len(x.res.Violations) < 10 {
			sched := choices(e)
			// determinism check: the same schedule must reproduce the same observation
			e2 := run(x.sc.Make()[:x.njobs], sched)
			got2 := e2.threads[i].res
			if e2.threads[i].pan != "" {
				got2 = "panic: " + e2.threads[i].pan
			}
			if e2.diverge || got2 != got {
				x.res.Nondet++
				continue
			}
			x.res.Violations = append(x.res.Violations, violation{Kind: "result-differs-from-solo", Scenario: x.sc.Name, Jobs: x.njobs, Schedule: trim(sched),
				Detail: fmt.Sprintf("job %d under this interleaving: %q; alone: %q", i, short(got), short(x.solo[i]))})
		}
	}
	x.outcomes[strings.Join(out, "\x00")] = true
	// access log: a package-level variable written by one job and accessed by another
	type st struct {
		threads map[int]bool
		writers map[int]bool
	}
	vars := map[string]*st{}
	for _, a := range e.log {
		x.globals[a.v] = true
		s := vars[a.v]
		if s == nil {
			s = &st{map[int]bool{}, map[int]bool{}}
			vars[a.v] = s
		}
		s.threads[a.thread] = true
		if a.kind == 'w' {
			s.writers[a.thread] = true
		}
	}
	for v, s := range vars {
		if len(s.threads) >= 2 {
			x.shared[v] = true
			if len(s.writers) >= 1 {
				x.races[v] = true
			}
		}
	}
}

func choices(e *exec) []int {
	c := make([]int, len(e.points))
	for i, p := range e.points {
		c[i] = p.choice
	}
	return c
}

func trim(c []int) []int {
	n := len(c)
	for n > 0 && c[n-1] == 0 {
		n--
	}
	return c[:n]
}

func short(s string) string {
	if len(s) > 300 {
		return s[:300] + "…"
	}
	return s
}

func (x *explorer) explore(prefix []int, top bool) {
	if time.Now().After(x.deadline) {
		x.res.Exhaustive = false
		x.res.Why = "deadline"
		return
	}
	e := run(x.sc.Make()[:x.njobs], prefix)
	if e.diverge {
		x.res.Exhaustive = false
		x.res.Why = "replay divergence (the code under test is not deterministic under the scheduler)"
		x.res.Nondet++
		return
	}
	if e.stuck {
		x.res.Exhaustive = false
		x.res.Why = "a job blocked outside the scheduler's control"
		return
	}
	pre := 0
	for _, p := range e.points[:min(len(prefix), len(e.points))] {
		if p.runningEnabled && p.choice != 0 {
			pre++
		}
	}
	total := 0
	for _, p := range e.points {
		if p.runningEnabled && p.choice != 0 {
			total++
		}
	}
	if !top || x.shard == 0 {
		x.check(e, prefix)
		x.res.ByPreempt[strconv.Itoa(total)]++
	}
	cost := pre
	pts := e.points
	for i := len(prefix); i < len(pts); i++ {
		for alt := 1; alt < len(pts[i].enabled); alt++ {
			c := cost
			if pts[i].runningEnabled {
				c++ // switching away from a thread that could continue is a preemption
			}
			if c > x.bound {
				continue
			}
			// work is divided among the shards at the first PREEMPTIVE deviation; free switches (nothing
			// running, or the running thread has finished) are followed by every shard
			if top && c > 0 {
				x.topIndex++
				if x.topIndex%x.nshards != x.shard {
					continue
				}
			}
			np := make([]int, i+1)
			for k := 0; k < i; k++ {
				np[k] = pts[k].choice
			}
			np[i] = alt
			x.explore(np, top && c == 0)
		}
		// points after the prefix all have choice 0 in this execution: no preemption added
	}
}

// globalsMode: package-level state must not depend on what the library processed. All scenario jobs are run
// once (lazily built tables get built), every package-level variable of the library is dumped, the jobs are
// run again on inputs of the same shapes with different spellings, and the variables are dumped again.
func globalsMode() {
	dump := func() map[string]string {
		out := map[string]string{}
		for name, ptr := range verifhook.Globals {
			out[name] = deepDump(ptr)
		}
		return out
	}
	runAll := func() {
		for _, sc := range sjobs.Scenarios(3) {
			for i := 0; i < 3; i++ {
				sc.Make()[i]()
			}
			e := run(sc.Make()[:3], nil)
			_ = e
		}
	}
	runAll()
	runAll()
	d0 := dump()
	sjobs.Alt()
	runAll()
	d1 := dump()
	var changed []string
	var names []string
	for name := range d0 {
		names = append(names, name)
		if d0[name] != d1[name] {
			changed = append(changed, name)
		}
	}
	sort.Strings(changed)
	sort.Strings(names)
	detail := map[string]string{}
	for _, n := range changed {
		detail[n] = short(d0[n]) + "  ==>  " + short(d1[n])
	}
	b, _ := json.Marshal(map[string]any{"variables": names, "changed": changed, "detail": detail})
	fmt.Println(string(b))
}

func main() {
	verifhook.Yield = yieldY
	if os.Getenv("SCHED_TINY") != "" {
		sjobs.Tiny()
	}
	if g := os.Getenv("SCHED_GRANULARITY"); g != "" {
		granularity, _ = strconv.Atoi(g)
	}
	verifhook.Access = access
	if len(os.Args) > 1 && os.Args[1] == "replay" {
		si, _ := strconv.Atoi(os.Args[2])
		nj, _ := strconv.Atoi(os.Args[3])
		var sched []int
		for _, s := range strings.Split(os.Args[4], ",") {
			if s != "" {
				v, _ := strconv.Atoi(s)
				sched = append(sched, v)
			}
		}
		sc := sjobs.Scenarios(nj)[si]
		var solo []string
		for i := 0; i < nj; i++ {
			solo = append(solo, sc.Make()[i]())
		}
		e := run(sc.Make()[:nj], sched)
		bad := false
		for i, t := range e.threads {
			got := t.res
			if t.pan != "" {
				got = "panic: " + t.pan
			}
			fmt.Printf("job %d: %q\n", i, got)
			if got != solo[i] {
				fmt.Printf("  alone: %q\n", solo[i])
				bad = true
			}
		}
		if bad {
			os.Exit(1)
		}
		return
	}
	if len(os.Args) > 1 && os.Args[1] == "globals" {
		globalsMode()
		return
	}
	si, _ := strconv.Atoi(os.Args[1])
	nj, _ := strconv.Atoi(os.Args[2])
	bound, _ := strconv.Atoi(os.Args[3])
	shard, _ := strconv.Atoi(os.Args[4])
	nsh, _ := strconv.Atoi(os.Args[5])
	dl, _ := strconv.Atoi(os.Args[6])
	sc := sjobs.Scenarios(nj)[si]
	x := &explorer{sc: sc, njobs: nj, bound: bound, shard: shard, nshards: nsh, deadline: time.Now().Add(time.Duration(dl) * time.Second),
		outcomes: map[string]bool{}, races: map[string]bool{}, shared: map[string]bool{}, globals: map[string]bool{}}
	x.res = result{Scenario: sc.Name, Jobs: nj, Bound: bound, ByPreempt: map[string]int{}, Exhaustive: true}
	for i := 0; i < nj; i++ {
		x.solo = append(x.solo, sc.Make()[i]()) // alone, on fresh objects, unscheduled
	}
	// solo runs must be reproducible, otherwise nothing can be concluded
	for i := 0; i < nj; i++ {
		if again := sc.Make()[i](); again != x.solo[i] {
			x.res.Exhaustive = false
			x.res.Why = "solo run not reproducible"
			x.res.Violations = append(x.res.Violations, violation{Kind: "solo-result-not-deterministic", Scenario: sc.Name, Jobs: nj,
				Detail: fmt.Sprintf("job %d alone gives %q, then %q", i, short(x.solo[i]), short(again))})
		}
	}
	if len(x.res.Violations) == 0 {
		x.explore(nil, true)
	}
	x.res.Outcomes = len(x.outcomes)
	for v := range x.races {
		x.res.Races = append(x.res.Races, v)
	}
	for v := range x.shared {
		x.res.SharedVars = append(x.res.SharedVars, v)
	}
	for v := range x.globals {
		x.res.GlobalsSeen = append(x.res.GlobalsSeen, v)
	}
	sort.Strings(x.res.Races)
	sort.Strings(x.res.SharedVars)
	sort.Strings(x.res.GlobalsSeen)
	b, _ := json.Marshal(x.res)
	fmt.Println(string(b))
}
