//go:build xmcsched

package main

import (
	"fmt"
	"reflect"
	"sort"
	"strings"
	"unsafe"
)

// deepDump renders any value, unexported fields and interface-keyed maps included, without addresses and
// with map entries sorted: two dumps are equal iff the reachable state is equal.
func deepDump(x any) string {
	var b strings.Builder
	seen := map[uintptr]bool{}
	var walk func(v reflect.Value, depth int)
	walk = func(v reflect.Value, depth int) {
		if depth > 24 {
			b.WriteString("<deep>")
			return
		}
		if !v.IsValid() {
			b.WriteString("<invalid>")
			return
		}
		// make unexported fields readable
		if v.CanAddr() && !v.CanInterface() {
			v = reflect.NewAt(v.Type(), unsafe.Pointer(v.UnsafeAddr())).Elem()
		}
		switch v.Kind() {
		case reflect.Ptr:
			if v.IsNil() {
				b.WriteString("nil")
				return
			}
			if seen[v.Pointer()] {
				b.WriteString("<cycle>")
				return
			}
			seen[v.Pointer()] = true
			b.WriteString("&")
			walk(v.Elem(), depth+1)
		case reflect.UnsafePointer:
			p := v.UnsafePointer()
			if p == nil {
				b.WriteString("unsafe(nil)")
			} else {
				b.WriteString("unsafe(set)")
			}
		case reflect.Interface:
			if v.IsNil() {
				b.WriteString("nil")
				return
			}
			e := v.Elem()
			b.WriteString("(" + e.Type().String() + ")")
			if !e.CanAddr() {
				// copy into an addressable value so that nested unexported fields can be read
				c := reflect.New(e.Type()).Elem()
				c.Set(e)
				e = c
			}
			walk(e, depth+1)
		case reflect.Struct:
			b.WriteString(v.Type().String() + "{")
			if !v.CanAddr() {
				c := reflect.New(v.Type()).Elem()
				c.Set(v)
				v = c
			}
			for i := 0; i < v.NumField(); i++ {
				b.WriteString(v.Type().Field(i).Name + ":")
				walk(v.Field(i), depth+1)
				b.WriteString(" ")
			}
			b.WriteString("}")
		case reflect.Map:
			if v.IsNil() {
				b.WriteString("map(nil)")
				return
			}
			var entries []string
			it := v.MapRange()
			for it.Next() {
				var kb, vb strings.Builder
				save := b
				b = kb
				walk(copyOf(it.Key()), depth+1)
				ks := b.String()
				b = vb
				walk(copyOf(it.Value()), depth+1)
				vs := b.String()
				b = save
				entries = append(entries, ks+"=>"+vs)
			}
			sort.Strings(entries)
			b.WriteString("map[" + strings.Join(entries, ", ") + "]")
		case reflect.Slice:
			if v.IsNil() {
				b.WriteString("slice(nil)")
				return
			}
			fallthrough
		case reflect.Array:
			b.WriteString("[")
			for i := 0; i < v.Len(); i++ {
				walk(v.Index(i), depth+1)
				b.WriteString(" ")
			}
			b.WriteString("]")
		case reflect.Func:
			if v.IsNil() {
				b.WriteString("func(nil)")
			} else {
				b.WriteString("func")
			}
		case reflect.Chan:
			fmt.Fprintf(&b, "chan(len %d)", v.Len())
		case reflect.String:
			fmt.Fprintf(&b, "%q", v.String())
		case reflect.Bool:
			fmt.Fprint(&b, v.Bool())
		case reflect.Int, reflect.Int8, reflect.Int16, reflect.Int32, reflect.Int64:
			fmt.Fprint(&b, v.Int())
		case reflect.Uint, reflect.Uint8, reflect.Uint16, reflect.Uint32, reflect.Uint64, reflect.Uintptr:
			fmt.Fprint(&b, v.Uint())
		case reflect.Float32, reflect.Float64:
			fmt.Fprint(&b, v.Float())
		case reflect.Complex64, reflect.Complex128:
			fmt.Fprint(&b, v.Complex())
		default:
			b.WriteString("<" + v.Kind().String() + ">")
		}
	}
	walk(reflect.ValueOf(x), 0)
	return b.String()
}

func copyOf(v reflect.Value) reflect.Value {
	if v.CanAddr() {
		return v
	}
	c := reflect.New(v.Type()).Elem()
	c.Set(v)
	return c
}
