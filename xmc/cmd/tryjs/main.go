package main

import (
	"fmt"
	"os"
	"time"

	"xmc/ref"
)

func main() {
	for _, s := range os.Args[1:] {
		fmt.Printf("%-30q => %s\n", s, ref.RunJS(s))
	}
	t0 := time.Now()
	for i := 0; i < 2000; i++ {
		ref.RunJS("print(a + b * c)")
	}
	fmt.Println("per run:", time.Since(t0)/2000)
}
