#!/bin/bash
# usage: check.sh <ID> <quick|thorough>   — rebuilds the explorer against /repo's working tree, runs one property check
set -u
cd "$(dirname "$0")"
export XMC_VERIF="$(pwd)"
export GOFLAGS=-mod=mod GOPROXY=off GOSUMDB=off GOTOOLCHAIN=local CGO_ENABLED=0
ID="$1"; TIER="${2:-${VERIF_TIER:-quick}}"
mkdir -p bin evidence replays .work
BIN="bin/xmc.$ID.$$"
trap 'rm -f "$BIN"' EXIT
# hooks on (build tag verif); if the tagged build fails on a modified tree fall back to the untagged build
if ! (cd xmc && go build -tags verif -o "../$BIN" . 2>.build.$$.log); then
  if ! (cd xmc && go build -o "../$BIN" . 2>>.build.$$.log); then
    cat xmc/.build.$$.log >&2; rm -f xmc/.build.$$.log
    echo "BUILD-FAILED: the harness does not build against /repo's working tree" >&2
    exit 2
  fi
fi
rm -f xmc/.build.$$.log
cp "$BIN" bin/xmc.tmp.$$ && mv bin/xmc.tmp.$$ bin/xmc   # latest build, for `bin/xmc replay`
"$BIN" check "$ID" "$TIER"
