#!/bin/bash
# warm the build caches (offline): the explorer, the overlay-instrumented scheduler build and the race build of C14
set -e
cd "$(dirname "$0")"
export GOFLAGS=-mod=mod GOPROXY=off GOSUMDB=off GOTOOLCHAIN=local CGO_ENABLED=0
mkdir -p bin evidence replays .work
(cd xmc && go build -tags verif -o ../bin/xmc .)
REPO=$(sed -n 's/^replace github.com\/xjslang\/xjs => //p' xmc/go.mod)
(cd xmc && go run ./cmd/instrument "$REPO" ../.work/setup-ovl >/dev/null && go build -tags xmcsched -overlay ../.work/setup-ovl/overlay.json -o ../.work/setup-sched ./cmd/sched) || echo "warning: instrumented build failed (C14 schedules will be reported as unavailable)"
(cd xmc && CGO_ENABLED=1 go build -race -o ../.work/setup-racep ./cmd/racep) || echo "warning: race-enabled build failed (C14 race pass will be skipped)"
rm -rf .work/setup-ovl .work/setup-sched .work/setup-racep
echo setup ok
