#!/bin/bash
# warm the build cache (offline)
set -e
cd "$(dirname "$0")"
export GOFLAGS=-mod=mod GOPROXY=off GOSUMDB=off GOTOOLCHAIN=local CGO_ENABLED=0
mkdir -p bin evidence replays .work
(cd xmc && go build -tags verif -o ../bin/xmc .)
echo setup ok
