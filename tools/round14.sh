#!/bin/bash
# usage: tools/round13.sh <ID>  — confirm a round-14 seed delivered under /tmp/s14/out/<ID>/O.* and measure first contact
# against the harness as it was when the round started (/tmp/verif-r14, a worktree of /verif)
ID="$1"
cd /verif
tools/seed_validate.sh /tmp/s14/out "$ID" P P 2>&1 | tail -1
[ -f seeded/$ID-P/patch.diff ] || exit 1
VERIF_SRC=/tmp/verif-r14 tools/seedrun.sh seeded/$ID-P/patch.diff "$ID" 2>&1 | grep '^MUT' | cut -c1-600 | tee -a /tmp/s14/first-contact.txt
