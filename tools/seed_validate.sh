#!/bin/bash
# usage: tools/seed_validate.sh <seed-out-dir> <ID> <A|B> [name-under-seeded]
# confirms in a scratch worktree of /repo HEAD: patch applies, builds, baseline passes with it, demo fails with it,
# demo passes without it. On success copies the seed to /verif/seeded/<ID>-<X>/.
set -u
OUT="$1"; ID="$2"; X="$3"; NAME="${4:-$3}"   # NAME: letter used under /verif/seeded (round 2: C, D)
export GOFLAGS=-mod=mod GOPROXY=off GOSUMDB=off GOTOOLCHAIN=local
P="$OUT/$ID/$X.patch.diff"; D="$OUT/$ID/${X}_demo_test.go"; M="$OUT/$ID/$X.meta.json"
[ -f "$P" ] && [ -f "$D" ] || { echo "SEED $ID-$X missing files"; exit 2; }
WT=/tmp/sv-$ID-$X-$$
git -C /repo worktree add --detach "$WT" HEAD >/dev/null 2>&1 || { echo "SEED $ID-$X cannot create worktree"; exit 2; }
trap 'git -C /repo worktree remove --force "$WT" >/dev/null 2>&1' EXIT
cd "$WT"
dir=$(grep -m1 -o 'place in: *[a-z/]*' "$D" | sed 's/place in: *//'); dir=${dir%/}
[ -n "$dir" ] || dir=compiler
applies=yes
git apply "$P" 2>/dev/null || git apply -3 "$P" 2>/dev/null || applies=no
if [ $applies = no ]; then echo "SEED $ID-$X patch-does-not-apply"; exit 1; fi
git diff HEAD > /tmp/sv-$ID-$X.rebased.diff
if go build ./... 2>/dev/null && go test -count=1 -vet=off ./... >/dev/null 2>&1; then base=pass; else base=FAIL; fi
cp "$D" "$dir/zz_seed_demo_test.go"
if go test -count=1 -vet=off "./$dir/" >/tmp/sv.$$.with 2>&1; then with=pass; else with=fail; fi
git reset -q --hard HEAD
if go test -count=1 -vet=off "./$dir/" >/tmp/sv.$$.without 2>&1; then without=pass; else without=FAIL; fi
rm -f "$dir/zz_seed_demo_test.go"
echo "SEED $ID-$X baseline_with_change=$base demo_with_change=$with demo_without_change=$without dir=$dir"
if [ $base = pass ] && [ $with = fail ] && [ $without = pass ]; then
  S=/verif/seeded/$ID-$NAME; mkdir -p "$S"
  cp /tmp/sv-$ID-$X.rebased.diff "$S/patch.diff"; cp "$D" "$S/demo_test.go"
  python3 - "$M" "$S/meta.json" "$ID" "$dir" <<'PY'
import json,sys
src,dst,pid,d=sys.argv[1:5]
try: m=json.load(open(src))
except Exception: m={}
out={"property":pid,"title":m.get("title",""),"breaks":m.get("what_it_breaks",""),"needs_to_manifest":m.get("needs_to_manifest",""),
 "files_touched":m.get("files_touched",[]),"origin":"independent sub-agent given only the property text and a scratch worktree",
 "confirmed":{"how":"tools/seed_validate.sh in a scratch worktree of /repo HEAD","baseline_suite_with_change":"pass","demo_with_change":"fail","demo_without_change":"pass","demo_dir":d}}
json.dump(out,open(dst,"w"),indent=1)
PY
fi
rm -f /tmp/sv.$$.with /tmp/sv.$$.without /tmp/sv-$ID-$X.rebased.diff
