#!/bin/bash
# usage: tools/mut.sh <patch-file> <ID> [ID...]   — apply a deliberate property-breaking change to /repo, confirm the
# baseline tests still pass, run the quick checks, undo the change. Prints one summary line per check.
set -u
P="$(realpath "$1")"; shift
export GOFLAGS=-mod=mod GOPROXY=off GOSUMDB=off GOTOOLCHAIN=local
cd /repo || exit 2
if [ -n "$(git status --porcelain)" ]; then echo "/repo not clean"; exit 2; fi
git apply "$P" || { echo "patch does not apply: $P"; exit 2; }
trap 'git -C /repo checkout -- . ; git -C /repo clean -fdq' EXIT
if go build ./... 2>/tmp/mut.build.$$ && go test -count=1 -vet=off ./... >/tmp/mut.test.$$ 2>&1; then base=pass; else base=FAIL; fi
rm -f /tmp/mut.build.$$
for ID in "$@"; do
  out=$(cd /verif && ./check.sh "$ID" ${TIER:-quick} 2>&1); rc=$?
  nv=$(echo "$out" | grep -c '^VIOLATION')
  first=$(echo "$out" | grep -A1 '^VIOLATION' | sed -n 2p | cut -c1-160)
  echo "MUT $(basename "$P") baseline=$base check=$ID exit=$rc violations=$nv :: $first"
done
rm -f /tmp/mut.test.$$
