#!/bin/bash
# usage: tools/round13.sh <ID>  — confirm a round-13 seed delivered under /tmp/s13/out/<ID>/O.* and measure first contact
# against the harness as it was when the round started (/tmp/verif-r13, a worktree of /verif)
ID="$1"
cd /verif
tools/seed_validate.sh /tmp/s13/out "$ID" O O 2>&1 | tail -1
[ -f seeded/$ID-O/patch.diff ] || exit 1
VERIF_SRC=/tmp/verif-r13 tools/seedrun.sh seeded/$ID-O/patch.diff "$ID" 2>&1 | grep '^MUT' | cut -c1-600 | tee -a /tmp/s13/first-contact.txt
