#!/bin/bash
export GOFLAGS=-mod=mod GOPROXY=off GOSUMDB=off GOTOOLCHAIN=local
cd /verif/xmc && go build -o /verif/bin/try ./cmd/try && /verif/bin/try "$@"
