#!/usr/bin/env python3
"""Rewrites the generated tables of DESIGN.md (findings from known_findings.json, seed matrix from seeded/MATRIX.txt)."""
import json, os, re
V = os.path.dirname(os.path.dirname(os.path.abspath(__file__)))
p = os.path.join(V, "DESIGN.md")
s = open(p).read()
kf = json.load(open(os.path.join(V, "known_findings.json")))["findings"]
rows = ["| property | status | commit / signature | what failed |", "|---|---|---|---|"]
for f in kf:
    ref = f.get("commit", "") if f["status"] == "fixed" else "known finding `%s`" % f.get("signature", "")
    rows.append("| %s | %s | %s | %s |" % (f["property"], f["status"], ref, f["what"].replace("|", "\\|").replace("\n", "\\n")))
s = re.sub(r"<!-- FINDINGS-TABLE-BEGIN -->.*?<!-- FINDINGS-TABLE-END -->", lambda m: "<!-- FINDINGS-TABLE-BEGIN -->\n" + "\n".join(rows) + "\n<!-- FINDINGS-TABLE-END -->", s, flags=re.S)
mx = os.path.join(V, "seeded", "MATRIX.txt")
if os.path.exists(mx):
    res = {}
    for ln in open(mx):
        m = re.match(r"MUT (\S+) check=(\S+) exit=(\d+) violations=(\d+)", ln)
        if m:
            res.setdefault(m.group(1), []).append((m.group(2), m.group(3) == "1"))
    out = ["| change | caught by (quick tier) | not caught by |", "|---|---|---|"]
    for k in sorted(res):
        out.append("| %s | %s | %s |" % (k, " ".join(c for c, hit in res[k] if hit) or "-", " ".join(c for c, hit in res[k] if not hit) or "-"))
    s = re.sub(r"<!-- MATRIX-BEGIN -->.*?<!-- MATRIX-END -->", lambda m: "<!-- MATRIX-BEGIN -->\n" + "\n".join(out) + "\n<!-- MATRIX-END -->", s, flags=re.S)
open(p, "w").write(s)
print("DESIGN.md tables regenerated:", len(kf), "findings")
