#!/bin/bash
# usage: tools/seed_revalidate.sh [seed-dir...]   — re-confirms each /verif/seeded/<id> against /repo HEAD in a scratch worktree:
# patch applies, library builds, baseline suite passes with it, demo fails with it and passes without it.
set -u
export GOFLAGS=-mod=mod GOPROXY=off GOSUMDB=off GOTOOLCHAIN=local
cd /verif
[ $# -gt 0 ] || set -- seeded/*
for S in "$@"; do
  S=${S%/}; name=$(basename "$S")
  WT=/tmp/sv-$name-$$
  git -C /repo worktree add --detach "$WT" HEAD >/dev/null 2>&1 || { echo "SEED $name cannot create worktree"; continue; }
  dir=$(python3 -c "import json;print(json.load(open('$S/meta.json'))['confirmed']['demo_dir'])" 2>/dev/null)
  ( cd "$WT"
    if ! git apply "/verif/$S/patch.diff" 2>/dev/null; then echo "SEED $name patch-does-not-apply"; exit; fi
    if go build ./... 2>/dev/null && go test -count=1 -vet=off ./... >/dev/null 2>&1; then base=pass; else base=FAIL; fi
    cp "/verif/$S/demo_test.go" "$dir/zz_seed_demo_test.go"
    if go test -count=1 -vet=off "./$dir/" >/dev/null 2>&1; then with=pass; else with=fail; fi
    git checkout -q -- .
    if go test -count=1 -vet=off "./$dir/" >/dev/null 2>&1; then without=pass; else without=FAIL; fi
    echo "SEED $name baseline_with_change=$base demo_with_change=$with demo_without_change=$without"
  )
  git -C /repo worktree remove --force "$WT" >/dev/null 2>&1
done
