#!/bin/bash
# usage: tools/seed_matrix.sh [all]  — runs every seeded change (and every hand-written mutant) against its own property's quick check
# (with "all": against every check), in scratch worktrees; writes /verif/seeded/MATRIX.txt
cd /verif
out=seeded/MATRIX.txt; : > $out.tmp
ALL="C01 C02 C03 C04 C05 C06 C07 C08 C09 C10 C11 C12 C13 C14 C15 C16"
for S in seeded/C*/ ; do
  name=$(basename $S); id=${name%-*}
  ids=$id; [ "${1:-}" = all ] && ids=$ALL
  tools/seedrun.sh $S/patch.diff $ids 2>&1 | grep '^MUT' | cut -c1-300 >> $out.tmp
done
for M in mutants/*.diff; do
  name=$(basename $M .diff); id=${name%%-*}
  mkdir -p /tmp/mm/$name; cp $M /tmp/mm/$name/patch.diff
  ids=$id; [ "${1:-}" = all ] && ids=$ALL
  tools/seedrun.sh /tmp/mm/$name/patch.diff $ids 2>&1 | grep '^MUT' | cut -c1-300 >> $out.tmp
done
rm -rf /tmp/mm; mv $out.tmp $out
