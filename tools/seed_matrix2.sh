#!/bin/bash
# usage: tools/seed_matrix2.sh  — like seed_matrix.sh, in two parallel streams, newest rounds first; writes seeded/MATRIX.txt
cd /verif
list=/tmp/mx2.list; : > $list
for L in K J I H G F; do for S in seeded/C*-$L/; do echo "$S/patch.diff $(basename $S | cut -d- -f1)" >> $list; done; done
mkdir -p /tmp/mm
for M in mutants/*.diff; do name=$(basename $M .diff); mkdir -p /tmp/mm/$name; cp $M /tmp/mm/$name/patch.diff; echo "/tmp/mm/$name/patch.diff ${name%%-*}" >> $list; done
for L in E D C B A; do for S in seeded/C*-$L/; do echo "$S/patch.diff $(basename $S | cut -d- -f1)" >> $list; done; done
run() { # $1 = 0|1 (stream)
  i=0
  while read -r P ID; do
    i=$((i+1)); [ $((i % 2)) -eq $1 ] || continue
    tools/seedrun.sh $P $ID 2>&1 | grep '^MUT' | cut -c1-300 >> /tmp/mx2.$1.out
  done < $list
}
: > /tmp/mx2.0.out; : > /tmp/mx2.1.out
run 0 & run 1 & wait
sort /tmp/mx2.0.out /tmp/mx2.1.out > seeded/MATRIX.txt
rm -rf /tmp/mm
