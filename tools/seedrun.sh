#!/bin/bash
# usage: tools/seedrun.sh <patch.diff> <ID> [ID...]   (env TIER=quick|thorough)
# Runs checks against a scratch worktree of /repo HEAD with the patch applied, leaving /repo untouched (so several can
# run in parallel and while /verif is being edited). Prints one summary line per check.
set -u
P="$(realpath "$1")"; shift
export GOFLAGS=-mod=mod GOPROXY=off GOSUMDB=off GOTOOLCHAIN=local CGO_ENABLED=0
tag=$(basename "$(dirname "$P")")-$$
WT=/tmp/sr-$tag; XV=/tmp/sr-$tag-verif
git -C /repo worktree add --detach "$WT" HEAD >/dev/null 2>&1 || { echo "cannot create worktree"; exit 2; }
trap 'git -C /repo worktree remove --force "$WT" >/dev/null 2>&1; rm -rf "$XV"' EXIT
(cd "$WT" && (git apply "$P" 2>/dev/null || git apply -3 "$P")) || { echo "MUT $tag patch does not apply"; exit 2; }
mkdir -p "$XV/evidence" "$XV/replays" "$XV/bin"
SRC="${VERIF_SRC:-/verif}"; cp -r "$SRC/xmc" "$XV/xmc"; cp "$SRC/known_findings.json" "$XV/"
sed -i "s#=> /repo#=> $WT#" "$XV/xmc/go.mod"
(cd "$XV/xmc" && go build -o ../bin/xmc . ) || { echo "MUT $tag harness does not build against the change"; exit 2; }
for ID in "$@"; do
  out=$(cd "$XV" && XMC_VERIF="$XV" bin/xmc check "$ID" ${TIER:-quick} 2>&1); rc=$?
  nv=$(echo "$out" | grep -c '^VIOLATION')
  first=$(echo "$out" | grep -A2 '^VIOLATION' | sed -n '2,3p' | tr '\n' ' ' | cut -c1-260)
  echo "MUT $(basename "$(dirname "$P")") check=$ID exit=$rc violations=$nv :: $first"
done
