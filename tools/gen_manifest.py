#!/usr/bin/env python3
"""Regenerates /verif/MANIFEST.json from the table below (kept in one place so the manifest stays valid)."""
import json, os, subprocess
V = os.path.dirname(os.path.dirname(os.path.abspath(__file__)))
ALL = ["C%02d" % i for i in range(1, 17)]
CHECKS = {
 "C10": dict(cat="exploration", sec="4 C10",
   technique="exhaustive input enumeration: all byte strings <= 5/6 over a 26-byte alphabet + all lexeme-fragment sequences x separators, span-consistency oracle + independent tokenizer",
   text="Every byte string up to the bound over one byte per lexer branch is tokenised by the real lexer and checked by a span oracle (tiling, positions, literals, keyword classes, maximal munch, after-newline, stable end of input); well-formed fragment sequences are compared token by token with an independent tokenizer. Complete within the bound: cursor off-by-ones need specific short byte sequences, all of which are enumerated.",
   note="trusted: R-span and R-tok (xmc/ref/rtok.go, props/c10.go); LF line model, byte columns; NUL-as-EOF was a finding and is fixed (known_findings.json)"),
 "C11": dict(cat="exploration", sec="4 C11",
   technique="exhaustive input enumeration: all token sequences <= 4/5 over a 45-lexeme alphabet (valid or not) and all byte strings <= 4, x 4 parser modes, error-contract oracle + reflective tree walk + all compiler configurations",
   text="Every token sequence up to the bound (malformed ones included) and every short byte string is parsed by the real parser in all four mode combinations; the error contract (no panic, err iff errors, no nil entries in statement lists, error ranges are token ranges, error-free trees complete and compilable in every configuration) is checked on each. Complete within the bound, so every early-return path of every sub-parser reachable with <= n tokens is driven.",
   note="trusted: reflective walker and token-range collection (props/xjs.go, props/c11.go); worker watchdog turns hangs/OOM into violations; bounded length"),
 "C02": dict(cat="exploration", sec="4 C02",
   technique="exhaustive input enumeration: all token sequences <= 4/5 over a 45-lexeme alphabet x all {space,LF} layouts + single-gap deviations, differential against the goja ECMAScript parser (tree-shape comparison)",
   text="Every token sequence up to the bound in every space/line-feed layout (plus single deviations to other gap kinds) that the reference ECMAScript parser accepts as a subset-only program is parsed by xjs; acceptance and tree shape (statement structure, precedence, associativity, ASI boundaries) must coincide. Complete small scope: every subset program of <= n tokens over the alphabet is compared, which is what precedence/ASI table edits cannot escape.",
   note="trusted: goja parser + AST-to-shape mapping (xmc/ref/shape.go); domain restrictions D1-D5; one lexeme per literal kind, two identifiers"),
 "C03": dict(cat="exploration", sec="4 C03",
   technique="exhaustive enumeration of programmatic ast trees: every chain of <= 3 (constructor, operand position) contexts x 9 leaves x 3 placements x 3 printers, print -> re-parse -> shape comparison -> re-print fixed point",
   text="Every parent/child/grand-child operator combination and operand side is built as a real ast tree without grouping nodes, printed by the real printers, re-parsed by the real parser and compared with the tree it came from, then printed again and compared byte for byte. Parser-produced trees never reach the parenthesisation branches; this enumeration reaches every one of them.",
   note="trusted: harness tree -> ast builder (props/build.go), shape mapping; depth 3; xjs parser as reader (its conformance is C02's subject)"),
 "C13": dict(cat="model_checking", sec="4 C13",
   technique="mode-product exploration: every program/layout of the bounded universes parsed in all 4 mode combinations, cross-mode tree-dump comparison + derived-input oracles (fused statements, open blocks, semicolon insertion before line-initial infix brackets)",
   text="All token sequences up to the bound and all statement-family programs in all layouts with <= k deviations are run through the four mode combinations of the real parser; the product is checked against the documented differences only (tolerant == strict on accepted programs incl. positions; tolerant additionally accepts fused statements / open blocks with the intact tree; smart == default except that a line-initial ( or [ after an expression end starts a statement). A flag consulted anywhere else shows up as a cross-mode difference on some enumerated program.",
   note="trusted: harness unparser roles (checked against goja by C02), message keywords for the two documented tolerant error kinds"),
 "C12": dict(cat="fault_enumeration", sec="4 C12",
   technique="exhaustive fault enumeration: every valid program of the bounded universes x every token deletion, line join, separator removal and truncation point; reference parser decides the domain",
   text="For every enumerated valid program every single fault of the model is applied; corrupted texts that the reference ECMAScript parser rejects must make strict parsing report an error located no earlier than the last intact token. Each of the ~25 expect sites is reachable only by a specific corruption of a specific construct; enumerating programs x faults reaches all of them.",
   note="trusted: goja accept/reject, R-tok for token boundaries; domain restriction D7 (template after expression end = tagged template)"),
 "C01": dict(cat="exploration", sec="4 C01",
   technique="exhaustive input enumeration x output configurations, differential execution: source text vs every compiled output run by the goja engine in fresh realms with logging proxies",
   text="Every program of the bounded universes (all loop-free token sequences <= n, print(E) for every expression chain, an executable statement family in every layout with <= k deviations) is compiled in every configuration of the tier and both source and output are executed; the observation (ordered log of calls, property accesses and conversions, completion kind and value) must coincide. Evaluation-order logging makes grouping, token fusion, semicolon policy and dropped/reordered tokens observable.",
   note="trusted: goja engine (both sides), harness prelude; Function.prototype.toString neutralised (function source text is layout); interrupted runs give no verdict"),
 "C07": dict(cat="exploration", sec="4 C07",
   technique="exhaustive enumeration of literal families (every \\xHH, every \\uHHHH, boundary \\u{...}, all ASCII bytes raw/escaped, all fragment pairs and triples, all short backtick sequences, all small number shapes), value comparison on the goja engine",
   text="Every literal of the enumerated families is evaluated in the source and in the emitted JavaScript (compact and pretty) by the reference engine and compared as UTF-16 code units / numeric string. The lexer decodes some escapes and the printer re-quotes, so every (escape, decoded value, delimiter) combination is enumerated rather than sampled; concatenations are exhaustive pairs/triples over a fragment alphabet.",
   note="trusted: goja literal evaluation on both sides; batches of 40 literals per program, mismatching batches re-run literal by literal"),
 "C09": dict(cat="model_checking", sec="4 C09",
   technique="explicit-state exploration: all builder call histories <= depth 5/6 (stateless) + BFS with abstract-state dedup to depth 7/9, real SourceMapper vs list model, independent VLQ decoder",
   text="Every operation history up to the bound over a 25-call alphabet is executed on the real builder in lock-step with a reference model and the emitted mappings are decoded by an independent Source Map v3 decoder; every VLQ delta in [-2^20,2^20] is encoded through the public API and decoded. Exhaustive within the bound, which is where delta-reset, name carry-over and continuation-bit bugs live.",
   note="trusted: the 60-line decoder and list model in xmc/ref/rmap.go; bounds: depth, 5 positions, 2 names, ASCII strings"),
 "C16": dict(cat="model_checking", sec="4 C16",
   technique="explicit-state exploration of the parser's context stack: every chain of <= 3/4/5 nesting constructors x leaf bodies parsed with recording statement+expression interceptors, per-invocation comparison with the reference nesting model of the harness unparser; final-state clause over all token sequences <= 4/5, all byte strings <= 4, every truncation and single-token deletion of every nested program",
   text="Every nesting chain up to the depth bound over 17 nesting constructors (blocks and functions in every statement and expression position) is parsed by the real parser with interceptors that query IsInFunction()/CurrentContext() at every parse step; each answer is compared with the nesting path the reference unparser recorded for that token. Every malformed input of the bounded universes (all short token/byte sequences, every truncation/deletion of every nested program) must leave the context at top level. Push/pop imbalances need a specific exit path at a specific depth; the enumeration drives every construct at every depth <= d and every early exit.",
   note="trusted: harness unparser nesting paths (statement structure cross-checked against goja by C02), offset mapping of token positions (LF lines, byte columns)"),
 "C04": dict(cat="model_checking", sec="4 C04",
   technique="configuration x input product with an interceptor-log reference model: 30/56 interceptor configurations (counts up to 8, every pass-through/re-entrant expression sequence <= 3/4, direct or via plugins) x all token sequences <= 3/4 (valid and malformed), all expression chains <= depth 3, statement families; results compared with the interceptor-free run, logs checked against the step model, second parser from the same builder",
   text="Every enumerated input is run under every interceptor configuration of the tier on the real lexer/parser builders; each run is compared with the interceptor-free run (tokens, tree with positions, errors, output) and its interceptor log is checked against the reference log model (complete runs in installation order, same steps in every configuration, entry token = first token of the construct returned, every statement/operand produced by exactly one step, token interceptors once per request on the lexeme's first byte, a second parser from the same builder logs the same). Chain-order and binding-power-restore slips need a specific chain length, position of the re-entrant interceptor and expression depth; the product covers all of them within the bounds.",
   note="trusted: leftmost-token function and step-coverage walk over xjs nodes (props/c04.go); a re-entrant interceptor ends the chain by construction"),
 "C05": dict(cat="model_checking", sec="4 C05",
   technique="explicit-state exploration of registration histories (all call sequences <= 4/5 over 25 registry calls, real builders in lock-step with a registry model, probe parses after every step) + exhaustive operator-string enumeration per precedence level against a precedence-climbing reference and a built-in-substitution oracle",
   text="Every registration history up to the bound is replayed on fresh real builders in lock-step with the registry model (ids, refusals), and after every step a probe set is parsed and compared with what the precedence-climbing reference predicts for the model's operator table - which also shows that a refused registration left the parser unchanged. For every level 1..13 every flat operator string of the tier (all built-in neighbours on both sides, every single prefix/suffix decoration) is parsed with plugin operators and compared with the reference grouping and with the built-in operator of the same level. An off-by-one in a right-operand level or a registration written to the wrong table shows at one specific level/neighbour/history; all are enumerated.",
   note="trusted: R-prec (xmc/ref/rprec.go, 250 lines) and the registry model in props/c05.go; postfix-vs-infix role sharing on one token is outside the model"),
 "C15": dict(cat="exploration", sec="4 C15",
   technique="exhaustive decoration enumeration: every statement boundary of every skeleton program (statement families, nesting chains <= 2/3) x every decoration of a 32-entry alphabet (trailing / own-line comments with 10 texts, blank-line runs, mixed sequences), singly and pairwise; independent tokenizer compares comment lists, anchors and blank-line separation of source and pretty output; compact output compared with the comment-free program",
   text="Every boundary of every enumerated skeleton receives every decoration of the alphabet (and every pair of boundaries a reduced set); the real lexer, parser and printers run on each decorated program and an independent tokenizer reads comments back from the pretty output: same texts, same order, once each, in front of the same token, blank lines between siblings kept, compact output unchanged and comment-free, comment content neutral. Trivia is attached to whichever token follows, so each boundary kind (first in block, between siblings, before a closing brace, before end of input, after an opening brace) x each owner node type is a separate code path; the enumeration visits all of them.",
   note="trusted: R-tok comment scan (xmc/ref/rtok.go); comments compared modulo trailing white space; one-statement-per-line layouts"),
 "C06": dict(cat="model_checking", sec="4 C06",
   technique="exhaustive exploration of the writer's deferred-whitespace machine through the program universe: all token sequences <= 4/5, statement families x all layouts with <= 1/2 deviations (comments, blank lines, line breaks, dropped semicolons in every gap), multi-line literal and literal/comment interplay families, expression chains; x 21 option sets; re-parse, idempotence, indent-only and semicolon-only difference oracles",
   text="Every program/layout of the bounded universes is formatted by the real printer under the option sets of the tier; each output is re-parsed and compared (via its compact form and tree shape) with the source's tree, formatted again and compared byte for byte; the outputs for all ten indent units must agree after stripping leading white space, and the with/without-semicolon outputs after deleting statement-terminating semicolons located by an independent tokenizer. The pending-buffer machine misbehaves only for particular sequences of newline/indent/space/comment requests, which particular statement/comment adjacencies produce; the layout enumeration with deviations in every gap produces all such adjacencies up to the bound.",
   note="trusted: xjs parser as reader of the formatted text (its conformance is C02's subject), R-tok for locating terminators, the literal-aware line scanner in props/c06.go"),
 "C08": dict(cat="exploration", sec="4 C08",
   technique="exhaustive input enumeration x output configurations: all token sequences <= 4/5, statement families x layouts with <= 1/2 deviations, expression chains, literal family; every segment of every emitted map decoded by an independent Source Map v3 decoder and checked against an independent tokenizer of source and generated code",
   text="Every accepted program of the bounded universes is compiled with a source map in compact mode and in the pretty option sets of the tier; the mappings string is decoded independently and EVERY segment is checked: a token starts exactly at its generated position and one of the same kind and lexeme exactly at its source position, segments are ordered, identifier segments carry the identifier's name and every identifier of the output is covered. A writer path that bypasses the position tracker (deferred white space, inserted separators, comments, escapes) shifts all later segments of the line or file; each such path needs a particular construct and layout, and all constructs x layouts up to the bound are enumerated.",
   note="trusted: decoder (xmc/ref/rmap.go) and R-tok; columns accepted in UTF-16 units or bytes; string literals compared by kind"),
 "C14": dict(cat="model_checking", sec="4 C14",
   technique="explicit-state exploration of operation histories on shared builders/compilers/trees against solo replays on fresh instances + stateless schedule exploration (hand-written cooperative scheduler, iterative context bounding, all interleavings up to a preemption bound) of parse/compile jobs on the overlay-instrumented library; complementary free-running -race pass (sampling, declared as such)",
   text="Every call history up to the bound on two builder stacks and two compilers is executed on the real objects and every observation is compared with a replay of the same configuration on fresh instances used alone (isolation, many parsers per builder, Compile does not modify the tree, source map does not change code, debug string = compact code). For concurrency the real library is rebuilt with scheduling points at every package-level variable access, heap store and function entry (go build -overlay, /repo untouched) and 2-3 jobs sharing nothing / a builder / a tree / a compiler are run under a cooperative scheduler; ALL schedules up to the stated preemption bounds are executed and each job's result is compared with its solo result; writes to package-level variables by concurrent jobs are reported from the access log. State leaking through a package-level table, a hoisted buffer or an aliased slice shows only under particular call orders or interleavings; these are enumerated, not sampled.",
   note="trusted: the instrumenter (xmc/instr) and scheduler (xmc/cmd/sched); sequential consistency; yield granularity as stated; the -race pass is sampling and only adds reports"),
}
NA_REASON = {}
def main():
    checks = []
    for pid in ALL:
        if pid not in CHECKS: continue
        c = CHECKS[pid]
        checks.append({
            "property_id": pid,
            "quick_cmd": "./check.sh %s quick" % pid,
            "thorough_cmd": "./check.sh %s thorough" % pid,
            "evidence_file": "/verif/evidence/%s.json" % pid,
            "replay_cmd_template": "bin/xmc replay {path}",
            "engine": "xmc",
            "level_claimed": {"category": c["cat"], "text": c["text"], "design_ref": "DESIGN.md §" + c["sec"]},
            "level_note": c["note"],
            "technique": c["technique"] + ("" if pid in ("C09","C14","C04") else "; plus the value-class, size (scale), identifier-spelling, object-lifecycle and builder-extension families listed in the evidence rule"),
        })
    na = [{"property_id": p, "reason": NA_REASON.get(p, "check not built yet (work in progress; see DESIGN.md §4 for the planned bounded exhaustive exploration)")} for p in ALL if p not in CHECKS]
    m = {
        "version": 1,
        "setup_cmd": "./setup.sh",
        "hooks": {
            "guard": "verif",
            "enable": "go build -tags verif (check.sh); no hook file is committed to /repo: all oracles use the public API, and the scheduling points of C14 are inserted by a go/ast rewriter into a go build -overlay (xmc/instr), regenerated from /repo's working tree on every run",
            "baseline_off_cmd": "cd /repo && GOFLAGS=-mod=mod GOPROXY=off GOSUMDB=off GOTOOLCHAIN=local go test -json -vet=off -count=1 -timeout 25m ./...",
            "source_commits": [],
            "add_only": True,
        },
        "engines": [{"name": "xmc", "path": "/verif/xmc", "serves_properties": sorted(CHECKS), "kind_free_text": "hand-written bounded exhaustive explorer (Go): sharded enumeration of inputs / fault sequences / operation histories / schedules on the real code, reference models in xmc/ref"}],
        "checks": checks,
        "notes": "All checks rebuild bin/xmc.<ID> against /repo's working tree (replace directive). Known findings: /verif/known_findings.json.",
        "not_applicable": na,
    }
    json.dump(m, open(os.path.join(V, "MANIFEST.json"), "w"), indent=1)
    print("MANIFEST.json written:", len(checks), "checks,", len(na), "not_applicable")
main()
